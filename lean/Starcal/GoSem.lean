/-! Starcal.GoSem: the semantics the source translator (harness/cmd/extract/srcfn.go) gives to the
    integer fragment of Go. `Option` is the panic monad (`none` = run-time panic). Go `int`/`int64` are
    unbounded `Int` (wrap-around is not modelled: see DESIGN section 5); `uintN` values are kept reduced
    modulo 2^N. -/
namespace Starcal.GoSem

/-- *lib.Date / lib.Date (date.go): Year int, Month uint8, Day uint8 -/
structure Date where
  Year : Int
  Month : Int
  Day : Int
deriving DecidableEq, Repr

/-- lib.HMS (hms.go): three uint8 fields -/
structure HMS where
  Hour : Int
  Minute : Int
  Second : Int
deriving DecidableEq, Repr

def u8 (x : Int) : Int := x % 256
def u16 (x : Int) : Int := x % 65536
def u32 (x : Int) : Int := x % 4294967296
def u64 (x : Int) : Int := x % 18446744073709551616

/-- `a[i]`: panics unless 0 ≤ i < len a -/
def idx (l : List Int) (i : Int) : Option Int := if 0 ≤ i then l[i.toNat]? else none

/-- `a[i]` on a slice of structures -/
def idxA {α : Type} (l : List α) (i : Int) : Option α := if 0 ≤ i then l[i.toNat]? else none

/-- `a / b` with a divisor that is not a non-zero constant: integer division by zero panics -/
def quo (a b : Int) : Option Int := if b = 0 then none else some (Int.tdiv a b)
/-- `a % b`, same -/
def rem (a b : Int) : Option Int := if b = 0 then none else some (Int.tmod a b)

/-- the overflow-checked copies: an exact result that does not fit in 64 bits is `none` -/
def chk64 (x : Int) : Option Int :=
  if -9223372036854775808 ≤ x ∧ x ≤ 9223372036854775807 then some x else none

theorem chk64_eq {x : Int} (h0 : -9223372036854775808 ≤ x) (h1 : x ≤ 9223372036854775807) : chk64 x = some x := by
  simp [chk64, h0, h1]

/-- checked `a / b`: division by zero panics, MinInt / -1 does not fit -/
def quo64 (a b : Int) : Option Int := if b = 0 then none else chk64 (Int.tdiv a b)

/-- `for cond { body }` over the tuple of variables the body assigns. Running out of fuel is reported as a
    panic, so a translated function that returns `some` did terminate within the fuel. -/
def whileFuel {σ : Type} (fuel : Nat) (c : σ → Option Bool) (b : σ → Option σ) (s : σ) : Option σ :=
  match fuel with
  | 0 => none
  | n + 1 =>
    match c s with
    | none => none
    | some false => some s
    | some true =>
      match b s with
      | none => none
      | some s' => whileFuel n c b s'

/-- `for _, v := range xs { … }` whose body may return: `some (some r)` = the loop returned r, `some none` = it ran to
    the end, `none` = a panic inside the body -/
def forRange {α ρ : Type} (l : List α) (f : α → Option (Option ρ)) : Option (Option ρ) :=
  match l with
  | [] => some none
  | x :: xs =>
    match f x with
    | none => none
    | some (some r) => some (some r)
    | some none => forRange xs f

/-- outcome of one iteration of a range loop with state: go on with the new state, or the function returned -/
inductive Flow (σ ρ : Type) where
  | next (s : σ)
  | ret (r : ρ)

/-- `for i, v := range xs { … }` over the tuple of variables the body assigns (the slice is evaluated once);
    the index counts from the given start -/
def forFold {α σ ρ : Type} (f : σ → Int → α → Option (Flow σ ρ)) : List α → Int → σ → Option (Flow σ ρ)
  | [], _, s => some (.next s)
  | x :: xs, i, s =>
    match f s i x with
    | none => none
    | some (.ret r) => some (.ret r)
    | some (.next s') => forFold f xs (i + 1) s'

/-- `for i := a; i < b; i++ { … }` whose body assigns neither `i` nor the bound: max(0, b - a) iterations -/
def forCountAux {σ ρ : Type} (f : σ → Int → Option (Flow σ ρ)) : Nat → Int → σ → Option (Flow σ ρ)
  | 0, _, s => some (.next s)
  | n + 1, i, s =>
    match f s i with
    | none => none
    | some (.ret r) => some (.ret r)
    | some (.next s') => forCountAux f n (i + 1) s'

def forCount {σ ρ : Type} (f : σ → Int → Option (Flow σ ρ)) (a b : Int) (s : σ) : Option (Flow σ ρ) :=
  forCountAux f (b - a).toNat a s

/-- `for cond { … }` whose body may `break`, `continue` or `return`: the body answers `Flow.next s` (go on),
    `Flow.ret (Sum.inr s)` (break with the state s) or `Flow.ret (Sum.inl r)` (the function returns r) -/
def whileB {σ ρ : Type} (fuel : Nat) (c : σ → Option Bool) (b : σ → Option (Flow σ (Sum ρ σ))) (s : σ) : Option (Flow σ ρ) :=
  match fuel with
  | 0 => none
  | n + 1 =>
    match c s with
    | none => none
    | some false => some (.next s)
    | some true =>
      match b s with
      | none => none
      | some (.next s') => whileB n c b s'
      | some (.ret (.inl r)) => some (.ret r)
      | some (.ret (.inr s')) => some (.next s')

/-- `m[k]` on a `map[int]int` kept as an association list: the zero value when the key is absent -/
def mapGet (m : List (Int × Int)) (k : Int) : Int :=
  match m.find? (fun p => p.1 == k) with
  | some p => p.2
  | none => 0
/-- `v, ok := m[k]` -/
def mapGet2 (m : List (Int × Int)) (k : Int) : Int × Bool :=
  match m.find? (fun p => p.1 == k) with
  | some p => (p.2, true)
  | none => (0, false)

/-- `make(T, n)`: n zero values; a negative length panics -/
def mkLen {α : Type} (n : Int) (z : α) : Option (List α) := if n < 0 then none else some (List.replicate n.toNat z)
/-- `make(T, 0, c)`: the empty slice; a negative capacity panics -/
def mkCap {α : Type} (c : Int) : Option (List α) := if c < 0 then none else some []
/-- `xs[i] = v` -/
def setA {α : Type} (l : List α) (i : Int) (v : α) : Option (List α) :=
  if 0 ≤ i ∧ i < l.length then some (l.set i.toNat v) else none
/-- `xs[:n]` (only up to the length: Go allows up to the capacity) -/
def takeA {α : Type} (l : List α) (n : Int) : Option (List α) :=
  if 0 ≤ n ∧ n ≤ l.length then some (l.take n.toNat) else none
/-- `xs[lo:hi]` (only up to the length: Go allows `hi` up to the capacity) -/
def sliceA {α : Type} (l : List α) (lo hi : Int) : Option (List α) :=
  if 0 ≤ lo ∧ lo ≤ hi ∧ hi ≤ l.length then some ((l.drop lo.toNat).take (hi - lo).toNat) else none
/-- `xs[n:]` -/
def dropA {α : Type} (l : List α) (n : Int) : Option (List α) :=
  if 0 ≤ n ∧ n ≤ l.length then some (l.drop n.toNat) else none

def fuel : Nat := 1024

/-- `int(f)` for a float `f` translated as an exact rational: truncation toward zero -/
def ftoi (x : Rat) : Int := if 0 ≤ x then x.floor else x.ceil

theorem u8_id {x : Int} (h0 : 0 ≤ x) (h1 : x < 256) : u8 x = x := by unfold u8; omega

end Starcal.GoSem
