/-! Starcal: Jalali calendar, 33-year algorithm (jalali.go with alg2820 = false). -/
namespace Starcal.Jalali

structure Date where
  year : Int
  month : Int
  day : Int
deriving DecidableEq, Repr

def GREGORIAN_EPOCH : Int := 1721426
def monthLenSum : List Int := [0, 31, 62, 93, 124, 155, 186, 216, 246, 276, 306, 336, 366]
def monthLenTab : List Int := [31, 31, 31, 31, 31, 31, 30, 30, 30, 30, 30, 30]

def sumAt (i : Int) : Int := monthLenSum.getD i.toNat 0

/-- IsLeap (33-year): 1 == (jyd2-jyd)*8 + (jym2+3)/4 - (jym+3)/4 -/
def isLeap (year : Int) : Bool :=
  let jy := year - 979
  let jyd := jy / 33
  let jym := jy % 33
  let jyd2 := (jy + 1) / 33
  let jym2 := (jy + 1) % 33
  decide (1 = (jyd2 - jyd) * 8 + (jym2 + 3) / 4 - (jym + 3) / 4)

def toJd (d : Date) : Int :=
  let jy := d.year - 979
  let jyd := jy / 33
  let jym := jy % 33
  365 * jy + jyd * 8 + (jym + 3) / 4 + sumAt (d.month - 1) + d.day - 1 + 584101 + GREGORIAN_EPOCH

/-- utils.BisectLeft(monthLenSum, yday): first index whose element is ≥ yday -/
def bisect (yday : Int) (i : Nat) (fuel : Nat) : Nat :=
  match fuel with
  | 0 => i
  | fuel + 1 => if monthLenSum.getD i 0 ≥ yday then i else bisect yday (i + 1) fuel

def getMonthDay (yday : Int) : Int × Int :=
  let month : Int := (bisect yday 0 13 : Nat)
  (month, yday - sumAt (month - 1))

def jdTo (jd : Int) : Date :=
  let jdays := jd - GREGORIAN_EPOCH - 584101
  let j_np := jdays / 12053
  let jdays := jdays % 12053
  let yearFact := jdays / 1461
  let jdays := jdays % 1461
  let year := 979 + 33 * j_np + 4 * yearFact
  if jdays ≥ 366 then
    let yearPlus := (jdays - 1) / 365
    let jdays := (jdays - 1) % 365
    let md := getMonthDay (jdays + 1)
    ⟨year + yearPlus, md.1, md.2⟩
  else
    let md := getMonthDay (jdays + 1)
    ⟨year, md.1, md.2⟩

def monthLen (y m : Int) : Int :=
  if m = 12 then (if isLeap y then 30 else 29) else monthLenTab.getD (m - 1).toNat 0

def WF (d : Date) : Prop := 1 ≤ d.month ∧ d.month ≤ 12 ∧ 1 ≤ d.day ∧ d.day ≤ monthLen d.year d.month

theorem month_cases {m : Int} (h1 : 1 ≤ m) (h2 : m ≤ 12) :
    m = 1 ∨ m = 2 ∨ m = 3 ∨ m = 4 ∨ m = 5 ∨ m = 6 ∨ m = 7 ∨ m = 8 ∨ m = 9 ∨ m = 10 ∨ m = 11 ∨ m = 12 := by
  omega

theorem sum_step (m : Int) (h1 : 1 ≤ m) (h2 : m ≤ 12) :
    sumAt m = sumAt (m - 1) + (if m = 12 then 30 else monthLenTab.getD (m - 1).toNat 0) ∧
    30 ≤ sumAt m - sumAt (m - 1) := by
  rcases month_cases h1 h2 with h|h|h|h|h|h|h|h|h|h|h|h <;> subst h <;> decide

theorem sum_mono (a : Int) (n : Nat) (ha : 0 ≤ a) (hb : a + n ≤ 12) : sumAt a ≤ sumAt (a + n) := by
  induction n with
  | zero => simp
  | succ n ih =>
    have h1 := ih (by omega)
    have h2 := (sum_step (a + n + 1) (by omega) (by omega)).2
    have e : a + ((n : Int) + 1) = a + n + 1 := by omega
    have e2 : a + (n : Int) + 1 - 1 = a + n := by omega
    simp only [Int.natCast_add, Int.natCast_one] at *
    rw [e]; rw [e2] at h2; omega

theorem bisect_spec (yday : Int) (m : Nat) (hm : m ≤ 12)
    (hlo : ∀ j : Nat, j < m → sumAt j < yday) (hhi : yday ≤ sumAt m)
    (fuel i : Nat) (hi : i ≤ m) (hf : m - i < fuel) : bisect yday i fuel = m := by
  induction fuel generalizing i with
  | zero => omega
  | succ fuel ih =>
    unfold bisect
    have hs : monthLenSum.getD i 0 = sumAt i := by simp [sumAt]
    rw [hs]
    by_cases him : i = m
    · subst him; simp [hhi]
    · have hlt : i < m := by omega
      have := hlo i hlt
      have hn : ¬ (sumAt i ≥ yday) := by omega
      simp only [hn, if_false]
      exact ih (i + 1) (by omega) (by omega)

/-- the bisect search inverts the cumulative table -/
theorem getMonthDay_spec (m d : Int) (hm1 : 1 ≤ m) (hm2 : m ≤ 12) (hd1 : 1 ≤ d)
    (hd2 : d ≤ sumAt m - sumAt (m - 1)) : getMonthDay (sumAt (m - 1) + d) = (m, d) := by
  obtain ⟨mn, hmn⟩ : ∃ mn : Nat, m = mn := ⟨m.toNat, by omega⟩
  have hb : bisect (sumAt (m - 1) + d) 0 13 = mn := by
    apply bisect_spec _ mn (by omega) _ _ 13 0 (by omega) (by omega)
    · intro j hj
      obtain ⟨n, hn⟩ : ∃ n : Nat, m - 1 = (j : Int) + n := ⟨(m - 1 - j).toNat, by omega⟩
      have := sum_mono j n (by omega) (by omega)
      rw [← hn] at this; omega
    · rw [← hmn]; omega
  simp only [getMonthDay, hb, ← hmn]
  congr 1
  omega


theorem yday_month (yd : Int) (h1 : 1 ≤ yd) (h2 : yd ≤ 366) :
    ∃ m d, 1 ≤ m ∧ m ≤ 12 ∧ 1 ≤ d ∧ d ≤ sumAt m - sumAt (m - 1) ∧ yd = sumAt (m - 1) + d ∧
      (m = 12 → d = yd - 336) := by
  have : yd ≤ 31 ∨ (31 < yd ∧ yd ≤ 62) ∨ (62 < yd ∧ yd ≤ 93) ∨ (93 < yd ∧ yd ≤ 124) ∨
      (124 < yd ∧ yd ≤ 155) ∨ (155 < yd ∧ yd ≤ 186) ∨ (186 < yd ∧ yd ≤ 216) ∨ (216 < yd ∧ yd ≤ 246) ∨
      (246 < yd ∧ yd ≤ 276) ∨ (276 < yd ∧ yd ≤ 306) ∨ (306 < yd ∧ yd ≤ 336) ∨ 336 < yd := by omega
  rcases this with h|h|h|h|h|h|h|h|h|h|h|h
  · exact ⟨1, yd - 0, by simp [sumAt, monthLenSum]; omega⟩
  · exact ⟨2, yd - 31, by simp [sumAt, monthLenSum]; omega⟩
  · exact ⟨3, yd - 62, by simp [sumAt, monthLenSum]; omega⟩
  · exact ⟨4, yd - 93, by simp [sumAt, monthLenSum]; omega⟩
  · exact ⟨5, yd - 124, by simp [sumAt, monthLenSum]; omega⟩
  · exact ⟨6, yd - 155, by simp [sumAt, monthLenSum]; omega⟩
  · exact ⟨7, yd - 186, by simp [sumAt, monthLenSum]; omega⟩
  · exact ⟨8, yd - 216, by simp [sumAt, monthLenSum]; omega⟩
  · exact ⟨9, yd - 246, by simp [sumAt, monthLenSum]; omega⟩
  · exact ⟨10, yd - 276, by simp [sumAt, monthLenSum]; omega⟩
  · exact ⟨11, yd - 306, by simp [sumAt, monthLenSum]; omega⟩
  · exact ⟨12, yd - 336, by simp [sumAt, monthLenSum]; omega⟩

/-- leap years in terms of the position inside the 33-year cycle -/
theorem isLeap_cycle (np jym : Int) (h0 : 0 ≤ jym) (h1 : jym ≤ 32) :
    isLeap (979 + 33 * np + jym) = decide (jym % 4 = 0 ∧ jym < 32) := by
  unfold isLeap
  simp only
  have e0 : 979 + 33 * np + jym - 979 = 33 * np + jym := by omega
  rw [e0]
  have e1 : (33 * np + jym) / 33 = np := by omega
  have e2 : (33 * np + jym) % 33 = jym := by omega
  rw [e1, e2]
  by_cases h32 : jym = 32
  · subst h32
    have e3 : (33 * np + 32 + 1) / 33 = np + 1 := by omega
    have e4 : (33 * np + 32 + 1) % 33 = 0 := by omega
    rw [e3, e4]
    have h : ¬ ((1:Int) = (np + 1 - np) * 8 + (0 + 3) / 4 - (32 + 3) / 4) := by omega
    have hc : ¬ ((32:Int) % 4 = 0 ∧ (32:Int) < 32) := by omega
    rw [decide_eq_false h, decide_eq_false hc]
  · have e3 : (33 * np + jym + 1) / 33 = np := by omega
    have e4 : (33 * np + jym + 1) % 33 = jym + 1 := by omega
    rw [e3, e4]
    have hz : (np - np) * 8 = 0 := by omega
    rw [hz]
    by_cases h4 : jym % 4 = 0
    · have h : (1:Int) = 0 + (jym + 1 + 3) / 4 - (jym + 3) / 4 := by omega
      have hc : jym % 4 = 0 ∧ jym < 32 := ⟨h4, by omega⟩
      rw [decide_eq_true h, decide_eq_true hc]
    · have h : ¬ ((1:Int) = 0 + (jym + 1 + 3) / 4 - (jym + 3) / 4) := by omega
      have hc : ¬ (jym % 4 = 0 ∧ jym < 32) := fun hh => h4 hh.1
      rw [decide_eq_false h, decide_eq_false hc]

theorem monthLen_eq (y m : Int) (h1 : 1 ≤ m) (h2 : m ≤ 11) : monthLen y m = sumAt m - sumAt (m - 1) := by
  have : m = 1 ∨ m = 2 ∨ m = 3 ∨ m = 4 ∨ m = 5 ∨ m = 6 ∨ m = 7 ∨ m = 8 ∨ m = 9 ∨ m = 10 ∨ m = 11 := by omega
  rcases this with h|h|h|h|h|h|h|h|h|h|h <;> subst h <;> simp [monthLen, monthLenTab, sumAt, monthLenSum]

/-- toJd in cycle coordinates -/
theorem toJd_cycle (np jym m d : Int) (h0 : 0 ≤ jym) (h1 : jym ≤ 32) :
    toJd ⟨979 + 33 * np + jym, m, d⟩ =
      12053 * np + 365 * jym + (jym + 3) / 4 + sumAt (m - 1) + d - 1 + 584101 + GREGORIAN_EPOCH := by
  unfold toJd
  simp only
  have e0 : 979 + 33 * np + jym - 979 = 33 * np + jym := by omega
  rw [e0]
  have e1 : (33 * np + jym) / 33 = np := by omega
  have e2 : (33 * np + jym) % 33 = jym := by omega
  rw [e1, e2]; omega

theorem jdTo_spec (jd : Int) : WF (jdTo jd) ∧ toJd (jdTo jd) = jd := by
  unfold jdTo
  simp only
  generalize hn : jd - GREGORIAN_EPOCH - 584101 = n
  generalize hnp : n / 12053 = np
  generalize hr : n % 12053 = r
  have hr0 : 0 ≤ r ∧ r < 12053 := by omega
  have hnr : n = 12053 * np + r := by omega
  generalize hyf : r / 1461 = yf
  generalize hr2 : r % 1461 = r2
  have hyf0 : 0 ≤ yf ∧ yf ≤ 8 := by omega
  have hr20 : 0 ≤ r2 ∧ r2 < 1461 ∧ (yf = 8 → r2 < 365) := by omega
  have hrr : r = 1461 * yf + r2 := by omega
  by_cases hge : r2 ≥ 366
  · simp only [hge, if_true]
    generalize hyp : (r2 - 1) / 365 = yp
    generalize hr3 : (r2 - 1) % 365 = r3
    have hyp0 : 1 ≤ yp ∧ yp ≤ 3 := by omega
    have hr30 : 0 ≤ r3 ∧ r3 < 365 := by omega
    have hr2e : r2 = 365 * yp + r3 + 1 := by omega
    have hyf7 : yf ≤ 7 := by omega
    obtain ⟨m, d, hm1, hm2, hd1, hd2, hyd, hm12⟩ := yday_month (r3 + 1) (by omega) (by omega)
    have hmd := getMonthDay_spec m d hm1 hm2 hd1 hd2
    rw [← hyd] at hmd
    rw [hmd]
    simp only
    have hyear : 979 + 33 * np + 4 * yf + yp = 979 + 33 * np + (4 * yf + yp) := by omega
    rw [hyear]
    have hleap := isLeap_cycle np (4 * yf + yp) (by omega) (by omega)
    refine ⟨⟨hm1, hm2, hd1, ?_⟩, ?_⟩
    · simp only
      by_cases h11 : m ≤ 11
      · rw [monthLen_eq _ m hm1 h11]; exact hd2
      · have hmm : m = 12 := by omega
        have hd := hm12 hmm
        subst hmm
        have hnl : isLeap (979 + 33 * np + (4 * yf + yp)) = false := by
          rw [hleap]; simp; omega
        simp [monthLen, hnl]; omega
    · rw [toJd_cycle np (4 * yf + yp) m d (by omega) (by omega)]
      have : (4 * yf + yp + 3) / 4 = yf + 1 := by omega
      rw [this]; omega
  · simp only [hge, if_false]
    obtain ⟨m, d, hm1, hm2, hd1, hd2, hyd, hm12⟩ := yday_month (r2 + 1) (by omega) (by omega)
    have hmd := getMonthDay_spec m d hm1 hm2 hd1 hd2
    rw [← hyd] at hmd
    rw [hmd]
    simp only
    have hyear : 979 + 33 * np + 4 * yf = 979 + 33 * np + (4 * yf) := by omega
    have hleap := isLeap_cycle np (4 * yf) (by omega) (by omega)
    refine ⟨⟨hm1, hm2, hd1, ?_⟩, ?_⟩
    · simp only
      by_cases h11 : m ≤ 11
      · rw [monthLen_eq _ m hm1 h11]; exact hd2
      · have hmm : m = 12 := by omega
        have hd := hm12 hmm
        subst hmm
        by_cases h8 : yf = 8
        · have hnl : isLeap (979 + 33 * np + 4 * yf) = false := by
            rw [hleap]; simp; omega
          have := hr20.2.2 h8
          simp [monthLen, hnl]; omega
        · have hl : isLeap (979 + 33 * np + 4 * yf) = true := by
            rw [hleap]; simp; omega
          simp [monthLen, hl]; omega
    · rw [toJd_cycle np (4 * yf) m d (by omega) (by omega)]
      have : (4 * yf + 3) / 4 = yf := by omega
      rw [this]; omega

end Starcal.Jalali
