import Starcal.TextMore
/-! Round trips and exactness for the remaining date/time text forms (C14, C08). -/
namespace Starcal

theorem showPad_chars (w : Nat) (i : Int) : ∀ x ∈ showPad w i, x = '-' ∨ isDigit x = true := by
  intro x hx
  unfold showPad at hx
  obtain ⟨hd, _⟩ := showNat_digits i.natAbs
  rcases List.mem_append.mp hx with h1 | h1
  · rcases List.mem_append.mp h1 with h2 | h2
    · split at h2
      · simp at h2; exact Or.inl h2
      · simp at h2
    · have := List.eq_of_mem_replicate h2; subst this; right; decide
  · exact Or.inr (hd x h1)

theorem showPad_free (w : Nat) (i : Int) (sep : Char) (h1 : sep ≠ '-') (h2 : isDigit sep = false) :
    ∀ x ∈ showPad w i, x ≠ sep := by
  intro x hx e
  subst e
  rcases showPad_chars w i x hx with h | h
  · exact h1 h
  · rw [h2] at h; exact absurd h (by simp)

theorem showHMS_free (x : HMS) (sep : Char) (h0 : sep ≠ ':') (h1 : sep ≠ '-') (h2 : isDigit sep = false) :
    ∀ c ∈ showHMS x, c ≠ sep := by
  intro c hc
  unfold showHMS at hc
  simp only [List.mem_append, List.mem_cons] at hc
  rcases hc with h | rfl | h | rfl | h
  · exact showPad_free _ _ sep h1 h2 c h
  · exact fun e => h0 e.symm
  · exact showPad_free _ _ sep h1 h2 c h
  · exact fun e => h0 e.symm
  · exact showPad_free _ _ sep h1 h2 c h

theorem showDate_free (d : DateV) (sep : Char) (h0 : sep ≠ '/') (h1 : sep ≠ '-') (h2 : isDigit sep = false) :
    ∀ c ∈ showDate d, c ≠ sep := by
  intro c hc
  unfold showDate at hc
  simp only [List.mem_append, List.mem_cons] at hc
  rcases hc with h | rfl | h | rfl | h
  · exact showPad_free _ _ sep h1 h2 c h
  · exact fun e => h0 e.symm
  · exact showPad_free _ _ sep h1 h2 c h
  · exact fun e => h0 e.symm
  · exact showPad_free _ _ sep h1 h2 c h

def u8 (v : Int) : Prop := 0 ≤ v ∧ v ≤ 255

theorem narrowNew_id (v : Int) (h : u8 v) : narrowNew v = v := by
  unfold narrowNew u8 at *; simp; omega

/-- **C14**: HMS.String then ParseHMS, every uint8 field value -/
theorem parse_show_hms (x : HMS) (h1 : u8 x.hour) (h2 : u8 x.minute) (h3 : u8 x.second) :
    parseHMS narrowNew (showHMS x) = some x := by
  have hc : ∀ w i, ∀ c ∈ showPad w i, c ≠ ':' := fun w i => showPad_free w i ':' (by decide) (by decide)
  have hsplit : splitOn ':' (showHMS x) = [showPad 2 x.hour, showPad 2 x.minute, showPad 2 x.second] := by
    unfold showHMS
    rw [splitOn_append ':' _ _ (hc 2 x.hour), splitOn_append ':' _ _ (hc 2 x.minute), splitOn_free ':' _ (hc 2 x.second)]
  unfold parseHMS
  simp only [hsplit]
  simp [parseInt_showPad, narrowNew_id _ h1, narrowNew_id _ h2, narrowNew_id _ h3]

/-- **C14**: DHMS.String then ParseDHMS, any day count a `uint` can hold -/
theorem parse_show_dhms (days : Int) (x : HMS) (hd : 0 ≤ days ∧ days < 18446744073709551616)
    (h1 : u8 x.hour) (h2 : u8 x.minute) (h3 : u8 x.second) :
    parseDHMS true (showDHMS days x) = some (days, x) := by
  have hsplit : splitOn ' ' (showDHMS days x) = [showInt days, showHMS x] := by
    unfold showDHMS
    rw [splitOn_append ' ' _ _ (showInt_no_space days),
      splitOn_free ' ' _ (showHMS_free x ' ' (by decide) (by decide) (by decide))]
  unfold parseDHMS
  rw [hsplit]
  simp only [parseInt_showInt, parse_show_hms x h1 h2 h3]
  have : ¬ days < 0 := by omega
  simp [this]; omega

/-- **C14**: DateHMS.String then ParseDateHMS, any year -/
theorem parse_show_datehms (d : DateV) (x : HMS) (hm : u8 d.month) (hd : u8 d.day)
    (h1 : u8 x.hour) (h2 : u8 x.minute) (h3 : u8 x.second) :
    parseDateHMS (showDateHMS d x) = some (d, x) := by
  have hsplit : splitOn ' ' (showDateHMS d x) = [showDate d, showHMS x] := by
    unfold showDateHMS
    rw [splitOn_append ' ' _ _ (showDate_free d ' ' (by decide) (by decide) (by decide)),
      splitOn_free ' ' _ (showHMS_free x ' ' (by decide) (by decide) (by decide))]
  unfold parseDateHMS
  rw [hsplit]
  simp [parse_show_date d hm hd, parse_show_hms x h1 h2 h3]

/-- a date written with plain decimal fields -/
def fmtDate (y m d : Int) : List Char := showInt y ++ ('/' :: (showInt m ++ ('/' :: showInt d)))

theorem showInt_free (i : Int) (sep : Char) (h1 : sep ≠ '-') (h2 : isDigit sep = false) : ∀ x ∈ showInt i, x ≠ sep := by
  obtain ⟨c, cs, hs, hcs, hc, _⟩ := showInt_shape i
  rw [hs]
  intro x hx e
  subst e
  rcases List.mem_cons.mp hx with rfl | hx
  · rcases hc with h | h
    · exact h1 h
    · rw [h2] at h; exact absurd h (by simp)
  · have := hcs _ hx; rw [h2] at this; exact absurd this (by simp)

/-- **exactness**: a written `y/m/d` with *any* integer fields decodes; it passes the validity
    check iff month and day are in range, and then carries exactly the written numbers -/
theorem parseDate_exact (y m d : Int) :
    ∃ v, parseDate narrowNew (fmtDate y m d) = some v ∧
      (v.isValid = true ↔ (1 ≤ m ∧ m ≤ 12 ∧ 1 ≤ d ∧ d ≤ 39)) ∧
      (v.isValid = true → v = ⟨y, m, d⟩) := by
  have hf : ∀ i, ∀ x ∈ showInt i, x ≠ '/' := fun i => showInt_free i '/' (by decide) (by decide)
  have hsplit : splitOn '/' (fmtDate y m d) = [showInt y, showInt m, showInt d] := by
    unfold fmtDate
    rw [splitOn_append '/' _ _ (hf y), splitOn_append '/' _ _ (hf m), splitOn_free '/' _ (hf d)]
  refine ⟨⟨y, narrowNew m, narrowNew d⟩, ?_, ?_, ?_⟩
  · unfold parseDate
    simp [hsplit, parseInt_showInt]
  · unfold DateV.isValid narrowNew
    simp only [Bool.and_eq_true, decide_eq_true_eq]
    constructor
    · rintro ⟨⟨⟨a1, a2⟩, a3⟩, a4⟩
      split at a1 <;> split at a3 <;> (try split at a2) <;> (try split at a4) <;> omega
    · rintro ⟨a1, a2, a3, a4⟩
      have n1 : ¬ (m < 0 ∨ m > 255) := by omega
      have n2 : ¬ (d < 0 ∨ d > 255) := by omega
      simp only [n1, n2, if_false]
      omega
  · unfold DateV.isValid narrowNew
    simp only [Bool.and_eq_true, decide_eq_true_eq]
    rintro ⟨⟨⟨a1, a2⟩, a3⟩, a4⟩
    split at a1 <;> split at a3 <;> (try omega)
    rename_i n1 n2
    simp [n1, n2]

end Starcal

namespace Starcal

theorem fmtDate_no_space (y m d : Int) : ∀ x ∈ fmtDate y m d, x ≠ ' ' := by
  intro x hx
  unfold fmtDate at hx
  have hf : ∀ i, ∀ c ∈ showInt i, c ≠ ' ' := fun i => showInt_free i ' ' (by decide) (by decide)
  simp only [List.mem_append, List.mem_cons] at hx
  rcases hx with h | rfl | h | rfl | h
  · exact hf _ x h
  · decide
  · exact hf _ x h
  · decide
  · exact hf _ x h

/-- "y/m/d h:m:s" written with any integer fields -/
theorem parseDateHMS_exact (y m d h mi s : Int) :
    ∃ dv hv, parseDateHMS (fmtDate y m d ++ (' ' :: fmtHMS h mi s)) = some (dv, hv) ∧
      ((dv.isValid && hv.isValid) = true ↔
        (1 ≤ m ∧ m ≤ 12 ∧ 1 ≤ d ∧ d ≤ 39 ∧ 0 ≤ h ∧ h < 24 ∧ 0 ≤ mi ∧ mi < 60 ∧ 0 ≤ s ∧ s < 60)) ∧
      ((dv.isValid && hv.isValid) = true → dv = ⟨y, m, d⟩ ∧ hv = ⟨h, mi, s⟩) := by
  have hsplit : splitOn ' ' (fmtDate y m d ++ (' ' :: fmtHMS h mi s)) = [fmtDate y m d, fmtHMS h mi s] := by
    rw [splitOn_append ' ' _ _ (fmtDate_no_space y m d), splitOn_free ' ' _ (fmtHMS_no_space h mi s)]
  obtain ⟨dv, hd1, hd2, hd3⟩ := parseDate_exact y m d
  obtain ⟨hv, hh1, hh2, hh3⟩ := parseHMS_exact h mi s
  refine ⟨dv, hv, ?_, ?_, ?_⟩
  · unfold parseDateHMS; rw [hsplit]; simp [hd1, hh1]
  · rw [Bool.and_eq_true, hd2, hh2]
    constructor
    · rintro ⟨⟨a1, a2, a3, a4⟩, b1, b2, b3, b4, b5, b6⟩; exact ⟨a1, a2, a3, a4, b1, b2, b3, b4, b5, b6⟩
    · rintro ⟨a1, a2, a3, a4, b1, b2, b3, b4, b5, b6⟩; exact ⟨⟨a1, a2, a3, a4⟩, b1, b2, b3, b4, b5, b6⟩
  · rw [Bool.and_eq_true]
    rintro ⟨a, b⟩
    exact ⟨hd3 a, hh3 b⟩

/-- "h:m:s h:m:s" written with any integer fields -/
theorem parseHMSRange_exact (h1 m1 s1 h2 m2 s2 : Int) :
    ∃ a b, parseHMSRange (fmtHMS h1 m1 s1 ++ (' ' :: fmtHMS h2 m2 s2)) = some (a, b) ∧
      ((a.isValid && b.isValid) = true ↔
        (0 ≤ h1 ∧ h1 < 24 ∧ 0 ≤ m1 ∧ m1 < 60 ∧ 0 ≤ s1 ∧ s1 < 60 ∧ 0 ≤ h2 ∧ h2 < 24 ∧ 0 ≤ m2 ∧ m2 < 60 ∧ 0 ≤ s2 ∧ s2 < 60)) ∧
      ((a.isValid && b.isValid) = true → a = ⟨h1, m1, s1⟩ ∧ b = ⟨h2, m2, s2⟩) := by
  have hsplit : splitOn ' ' (fmtHMS h1 m1 s1 ++ (' ' :: fmtHMS h2 m2 s2)) = [fmtHMS h1 m1 s1, fmtHMS h2 m2 s2] := by
    rw [splitOn_append ' ' _ _ (fmtHMS_no_space h1 m1 s1), splitOn_free ' ' _ (fmtHMS_no_space h2 m2 s2)]
  obtain ⟨a, ha1, ha2, ha3⟩ := parseHMS_exact h1 m1 s1
  obtain ⟨b, hb1, hb2, hb3⟩ := parseHMS_exact h2 m2 s2
  refine ⟨a, b, ?_, ?_, ?_⟩
  · unfold parseHMSRange; rw [hsplit]; simp [ha1, hb1]
  · rw [Bool.and_eq_true, ha2, hb2]
    constructor
    · rintro ⟨⟨a1, a2, a3, a4, a5, a6⟩, b1, b2, b3, b4, b5, b6⟩; exact ⟨a1, a2, a3, a4, a5, a6, b1, b2, b3, b4, b5, b6⟩
    · rintro ⟨a1, a2, a3, a4, a5, a6, b1, b2, b3, b4, b5, b6⟩; exact ⟨⟨a1, a2, a3, a4, a5, a6⟩, b1, b2, b3, b4, b5, b6⟩
  · rw [Bool.and_eq_true]
    rintro ⟨x, y⟩
    exact ⟨ha3 x, hb3 y⟩

end Starcal
