import Starcal.Greg
/-! Starcal: complete the Gregorian (Tondering) calendar: well-formedness of JdTo, the other round
    trip, the successor step. -/
namespace Starcal

theorem gmonth_cases {m : Int} (h1 : 1 ≤ m) (h2 : m ≤ 12) :
    m = 1 ∨ m = 2 ∨ m = 3 ∨ m = 4 ∨ m = 5 ∨ m = 6 ∨ m = 7 ∨ m = 8 ∨ m = 9 ∨ m = 10 ∨ m = 11 ∨ m = 12 := by
  omega

/-- sharper decomposition: when does the March-based year have 366 days -/
theorem gJdTo_decomp2 (jd : Int) :
    ∃ b d e m : Int,
      0 ≤ d ∧ d ≤ 99 ∧ 0 ≤ e ∧ e ≤ 365 ∧ 0 ≤ m ∧ m ≤ 11 ∧
      (e = 365 → d % 4 = 3 ∧ (d = 99 → b % 4 = 3)) ∧
      jd + 32044 = 36524 * b + b / 4 + 365 * d + d / 4 + e ∧
      m = (5 * e + 2) / 153 ∧
      gJdTo jd = { day := e - (153 * m + 2) / 5 + 1, month := m + 3 - 12 * (m / 10),
                   year := 100 * b + d - 4800 + m / 10 } := by
  refine ⟨(4 * (jd + 32044) + 3) / 146097, ?_⟩
  generalize hb : (4 * (jd + 32044) + 3) / 146097 = b
  have hc : 0 ≤ jd + 32044 - 146097 * b / 4 ∧ jd + 32044 - 146097 * b / 4 ≤ 36524 := by omega
  have hq : 146097 * b / 4 = 36524 * b + b / 4 := by omega
  have hc2 : jd + 32044 - 146097 * b / 4 = 36524 → b % 4 = 3 := by omega
  generalize hcc : jd + 32044 - 146097 * b / 4 = c at hc hc2
  refine ⟨(4 * c + 3) / 1461, ?_⟩
  generalize hd : (4 * c + 3) / 1461 = d
  have hd1 : 0 ≤ d ∧ d ≤ 99 := by omega
  have hq2 : 1461 * d / 4 = 365 * d + d / 4 := by omega
  have he : 0 ≤ c - 1461 * d / 4 ∧ c - 1461 * d / 4 ≤ 365 := by omega
  have he2 : c - 1461 * d / 4 = 365 → d % 4 = 3 ∧ (d = 99 → c = 36524) := by omega
  generalize hee : c - 1461 * d / 4 = e at he he2
  refine ⟨e, (5 * e + 2) / 153, hd1.1, hd1.2, he.1, he.2, by omega, by omega, ?_, by omega, rfl, ?_⟩
  · intro h365
    obtain ⟨h1, h2⟩ := he2 h365
    exact ⟨h1, fun h99 => hc2 (h2 h99)⟩
  · unfold gJdTo
    simp only [hb, hcc, hd, hee]

theorem gIsLeap_iff (y : Int) : gIsLeap y = true ↔ (y % 4 = 0 ∧ (y % 100 ≠ 0 ∨ y % 400 = 0)) := by
  unfold gIsLeap; simp

theorem gJdTo_WF (jd : Int) : gWF (gJdTo jd) := by
  obtain ⟨b, d, e, m, hd0, hd1, he0, he1, hm0, hm1, hleap, hjd, hm, heq⟩ := gJdTo_decomp2 jd
  rw [heq]
  unfold gWF
  simp only
  have hmc : m = 0 ∨ m = 1 ∨ m = 2 ∨ m = 3 ∨ m = 4 ∨ m = 5 ∨ m = 6 ∨ m = 7 ∨ m = 8 ∨ m = 9 ∨ m = 10 ∨ m = 11 := by omega
  rcases hmc with h|h|h|h|h|h|h|h|h|h|h|h <;> subst h <;> simp [gMonthLen] <;> (try omega)
  -- m = 11: February; 29 days only in leap years
  split
  · omega
  · rename_i hnl
    have : e ≤ 364 := by
      cases Classical.em (e = 365) with
      | inr h => omega
      | inl h365 =>
        exfalso
        obtain ⟨h4, h99⟩ := hleap h365
        apply hnl
        rw [gIsLeap_iff]
        by_cases hd99 : d = 99
        · have := h99 hd99; subst hd99; omega
        · omega
    omega

end Starcal

namespace Starcal

theorem march_bracket (mm e : Int) (hmm0 : 0 ≤ mm) (hmm1 : mm ≤ 11) (h1 : (153 * mm + 2) / 5 ≤ e)
    (h2 : mm ≤ 10 → e < (153 * (mm + 1) + 2) / 5) (h3 : e ≤ 365) : (5 * e + 2) / 153 = mm := by
  have : mm = 0 ∨ mm = 1 ∨ mm = 2 ∨ mm = 3 ∨ mm = 4 ∨ mm = 5 ∨ mm = 6 ∨ mm = 7 ∨ mm = 8 ∨ mm = 9 ∨
      mm = 10 ∨ mm = 11 := by omega
  rcases this with h|h|h|h|h|h|h|h|h|h|h|h <;> subst h <;> omega

/-- month lengths in March-based indexing -/
theorem len_march (y mo : Int) (h1 : 1 ≤ mo) (h2 : mo ≤ 12) :
    (3 ≤ mo → gMonthLen y mo = (153 * (mo - 3 + 1) + 2) / 5 - (153 * (mo - 3) + 2) / 5) ∧
    (mo = 1 → gMonthLen y mo = 31) ∧
    (mo = 2 → gMonthLen y mo = if gIsLeap y then 29 else 28) := by
  rcases gmonth_cases h1 h2 with h|h|h|h|h|h|h|h|h|h|h|h <;> subst h <;> simp [gMonthLen]

/-- (B′) the other round trip -/
theorem gJdTo_gToJd (dt : Date) (hwf : gWF dt) : gJdTo (gToJd dt) = dt := by
  rcases dt with ⟨y, mo, dd⟩
  obtain ⟨hm1, hm2, hd1, hd2⟩ := hwf
  simp only at hm1 hm2 hd1 hd2
  obtain ⟨hl3, hl1, hl2⟩ := len_march y mo hm1 hm2
  -- March-based month index mm, year Y and shift a
  obtain ⟨a, ha⟩ : ∃ a : Int, a = if mo < 3 then 1 else 0 := ⟨_, rfl⟩
  have ha' : (mo < 3 ∧ a = 1) ∨ (3 ≤ mo ∧ a = 0) := by
    by_cases h : mo < 3
    · left; exact ⟨h, by simp [ha, h]⟩
    · right; exact ⟨by omega, by simp [ha, h]⟩
  obtain ⟨Y, hY⟩ : ∃ Y : Int, Y = y + 4800 - a := ⟨_, rfl⟩
  obtain ⟨mm, hmm⟩ : ∃ mm : Int, mm = mo + 12 * a - 3 := ⟨_, rfl⟩
  have hmm0 : 0 ≤ mm ∧ mm ≤ 11 := by omega
  have hjd : gToJd ⟨y, mo, dd⟩ = 365 * Y + Y / 4 - Y / 100 + Y / 400 - 32045 + (153 * mm + 2) / 5 + dd := by
    unfold gToJd; simp only; rw [← ha, ← hY, ← hmm]
  generalize hjd' : gToJd ⟨y, mo, dd⟩ = jd at *
  -- write Y = 100 b + d
  generalize hb : Y / 100 = b at *
  generalize hd : Y % 100 = d at *
  have hYbd : Y = 100 * b + d := by omega
  have hd0 : 0 ≤ d ∧ d ≤ 99 := by omega
  have e1 : Y / 4 = 25 * b + d / 4 := by omega
  have e3 : Y / 400 = b / 4 := by omega
  -- day index e inside the March-based year
  obtain ⟨e, he⟩ : ∃ e : Int, e = (153 * mm + 2) / 5 + dd - 1 := ⟨_, rfl⟩
  have he_lo : (153 * mm + 2) / 5 ≤ e := by omega
  have he_hi : mm ≤ 10 → e < (153 * (mm + 1) + 2) / 5 := by
    intro hle
    rcases ha' with ⟨hlt, ha1⟩ | ⟨hge, ha0⟩
    · -- January (mm = 10)
      have hmo1 : mo = 1 := by omega
      have := hl1 hmo1
      have hmm10 : mm = 10 := by omega
      subst hmm10; omega
    · have := hl3 hge
      have hmmo : mm = mo - 3 := by omega
      rw [hmmo] at he ⊢; omega
  have hfeb : mm = 11 → mo = 2 := by omega
  have he365 : e ≤ 365 ∧ (e = 365 → gIsLeap y = true) := by
    by_cases h11 : mm = 11
    · have hmo2 := hfeb h11
      have hl := hl2 hmo2
      subst h11
      by_cases hleap : gIsLeap y = true
      · simp [hleap] at hl; exact ⟨by omega, fun _ => hleap⟩
      · simp [hleap] at hl; exact ⟨by omega, fun h => by omega⟩
    · have h10 : mm ≤ 10 := by omega
      have := he_hi h10
      have hm : mm = 0 ∨ mm = 1 ∨ mm = 2 ∨ mm = 3 ∨ mm = 4 ∨ mm = 5 ∨ mm = 6 ∨ mm = 7 ∨ mm = 8 ∨
          mm = 9 ∨ mm = 10 := by omega
      rcases hm with h|h|h|h|h|h|h|h|h|h|h <;> subst h <;> exact ⟨by omega, fun h => by omega⟩
  have hmme := march_bracket mm e hmm0.1 hmm0.2 he_lo he_hi he365.1
  have he0 : 0 ≤ e := by
    have : 0 ≤ (153 * mm + 2) / 5 := by omega
    omega
  have hleap : e = 365 → d % 4 = 3 ∧ (d = 99 → b % 4 = 3) := by
    intro h365
    have hl := (gIsLeap_iff y).mp (he365.2 h365)
    have hmm11 : mm = 11 := by
      cases Classical.em (mm = 11) with
      | inl h => exact h
      | inr h =>
        have := he_hi (by omega)
        have hm : mm = 0 ∨ mm = 1 ∨ mm = 2 ∨ mm = 3 ∨ mm = 4 ∨ mm = 5 ∨ mm = 6 ∨ mm = 7 ∨ mm = 8 ∨
            mm = 9 ∨ mm = 10 := by omega
        rcases hm with h|h|h|h|h|h|h|h|h|h|h <;> subst h <;> omega
    have ha1 : a = 1 := by omega
    have hy : y = 100 * b + d - 4799 := by omega
    omega
  have hsum : jd + 32044 = 36524 * b + b / 4 + 365 * d + d / 4 + e := by
    rw [hjd, e1, e3]; omega
  -- now replay gJdTo on this day number
  unfold gJdTo
  simp only
  have hB : (4 * (jd + 32044) + 3) / 146097 = b := by
    by_cases h365 : e = 365
    · obtain ⟨h4, h99⟩ := hleap h365
      by_cases hd99 : d = 99
      · have := h99 hd99; omega
      · omega
    · omega
  rw [hB]
  have hq : 146097 * b / 4 = 36524 * b + b / 4 := by omega
  rw [hq]
  have hC : jd + 32044 - (36524 * b + b / 4) = 365 * d + d / 4 + e := by omega
  rw [hC]
  have hD : (4 * (365 * d + d / 4 + e) + 3) / 1461 = d := by
    by_cases h365 : e = 365
    · obtain ⟨h4, _⟩ := hleap h365; omega
    · omega
  rw [hD]
  have hq2 : 1461 * d / 4 = 365 * d + d / 4 := by omega
  rw [hq2]
  have hE : 365 * d + d / 4 + e - (365 * d + d / 4) = e := by omega
  rw [hE, hmme]
  -- finally undo the March shift
  rcases ha' with ⟨hlt, ha1⟩ | ⟨hge, ha0⟩
  · have : mm / 10 = 1 := by omega
    rw [this]
    congr 1 <;> omega
  · have : mm / 10 = 0 := by omega
    rw [this]
    congr 1 <;> omega

end Starcal

namespace Starcal

def gSucc (d : Date) : Date :=
  if d.day < gMonthLen d.year d.month then ⟨d.year, d.month, d.day + 1⟩
  else if d.month < 12 then ⟨d.year, d.month + 1, 1⟩
  else ⟨d.year + 1, 1, 1⟩

theorem gMonthLen_range (y m : Int) (h1 : 1 ≤ m) (h2 : m ≤ 12) : 28 ≤ gMonthLen y m ∧ gMonthLen y m ≤ 31 := by
  rcases gmonth_cases h1 h2 with h|h|h|h|h|h|h|h|h|h|h|h <;> subst h <;> simp [gMonthLen] <;>
    split <;> omega

/-- first day of the next month is one day after the last day of this month -/
theorem gToJd_month_step (y m : Int) (h1 : 1 ≤ m) (h2 : m ≤ 11) :
    gToJd ⟨y, m + 1, 1⟩ = gToJd ⟨y, m, gMonthLen y m⟩ + 1 := by
  have hc : m = 1 ∨ m = 2 ∨ m = 3 ∨ m = 4 ∨ m = 5 ∨ m = 6 ∨ m = 7 ∨ m = 8 ∨ m = 9 ∨ m = 10 ∨ m = 11 := by omega
  rcases hc with h|h|h|h|h|h|h|h|h|h|h <;> subst h
  · simp [gToJd, gMonthLen]; omega
  · -- February → March: the March-based year changes, and the leap day is decided here
    unfold gToJd gMonthLen
    simp only [gIsLeap_iff]
    have e1 : ((2:Int) + 1 < 3) = False := by simp
    simp only [show ((2:Int) + 1 < 3) = False by simp, show ((2:Int) < 3) = True by simp, if_true, if_false]
    generalize hY : y + 4800 - 1 = Y
    have hY' : y + 4800 - 0 = Y + 1 := by omega
    rw [hY']
    by_cases hl : gIsLeap y = true
    · have := (gIsLeap_iff y).mp hl
      simp [hl]; omega
    · have hn : ¬ (y % 4 = 0 ∧ (y % 100 ≠ 0 ∨ y % 400 = 0)) := fun h => hl ((gIsLeap_iff y).mpr h)
      simp [hl]; omega
  all_goals (simp [gToJd, gMonthLen] <;> omega)

theorem gToJd_succ (dt : Date) (hwf : gWF dt) : gWF (gSucc dt) ∧ gToJd (gSucc dt) = gToJd dt + 1 := by
  rcases dt with ⟨y, m, d⟩
  obtain ⟨hm1, hm2, hd1, hd2⟩ := hwf
  simp only at hm1 hm2 hd1 hd2
  unfold gSucc
  simp only
  by_cases hlt : d < gMonthLen y m
  · simp only [hlt, if_true]
    refine ⟨⟨hm1, hm2, by simp only; omega, by simp only; omega⟩, ?_⟩
    unfold gToJd; simp only; omega
  · have hd : d = gMonthLen y m := by omega
    simp only [hlt, if_false]
    by_cases hm : m < 12
    · simp only [hm, if_true]
      have hr := gMonthLen_range y (m + 1) (by omega) (by omega)
      refine ⟨⟨by simp only; omega, by simp only; omega, by simp, by simp only; omega⟩, ?_⟩
      rw [hd]; exact gToJd_month_step y m hm1 (by omega)
    · have hm12 : m = 12 := by omega
      subst hm12
      simp only [hm, if_false]
      have hd31 : d = 31 := by rw [hd]; simp [gMonthLen]
      subst hd31
      refine ⟨⟨by simp, by simp, by simp, by simp [gMonthLen]⟩, ?_⟩
      simp [gToJd]; omega

/-- C02 for the Gregorian model -/
theorem gSucc_step (jd : Int) : gJdTo (jd + 1) = gSucc (gJdTo jd) := by
  have hwf := gJdTo_WF jd
  have hjd := gToJd_gJdTo jd
  obtain ⟨hwf', hs⟩ := gToJd_succ (gJdTo jd) hwf
  have := gJdTo_gToJd (gSucc (gJdTo jd)) hwf'
  rw [hs, hjd] at this
  exact this

/-- C03 anchor: 1970-01-01 is day 2440588 -/
theorem gAnchor : gJdTo 2440588 = ⟨1970, 1, 1⟩ := by decide

end Starcal
