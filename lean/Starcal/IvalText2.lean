import Starcal.IvalText
import Starcal.PMore
/-! Lemmas for the text forms of interval lists: printed intervals contain no space, so the
    printed list splits back into its parts; every part parses back (C13). -/
namespace Starcal

theorem showNat_no_space (n : Nat) : ∀ x ∈ showNat n, x ≠ ' ' := by
  intro x hx
  have := (showNat_digits n).1 x hx
  intro e; subst e; simp [isDigit] at this

/-- the characters an interval prints with -/
def okc (c : Char) : Bool := isDigit c || c == '-' || c == '(' || c == ')' || c == ']'

theorem showNat_okc (n : Nat) : (showNat n).all okc = true := by
  rw [List.all_eq_true]; intro x hx
  simp [okc, (showNat_digits n).1 x hx]

theorem showInt_okc (i : Int) : (showInt i).all okc = true := by
  unfold showInt
  split
  · simp only [List.all_cons, showNat_okc]; decide
  · exact showNat_okc _

theorem showIval_okc (i : Ival) : (showIval i).all okc = true := by
  unfold showIval
  split
  · decide
  · split
    · split
      · exact showInt_okc _
      · decide
    · split
      · cases i.closed <;>
          simp only [List.all_cons, List.all_append, showNat_okc, if_true, if_false, Bool.false_eq_true] <;> decide
      · cases i.closed <;>
          simp only [List.all_cons, List.all_append, showInt_okc, if_true, if_false, Bool.false_eq_true] <;> decide

theorem showIval_no_space (i : Ival) : ∀ x ∈ showIval i, x ≠ ' ' := by
  intro x hx e
  have := List.all_eq_true.mp (showIval_okc i) x hx
  subst e
  simp [okc, isDigit] at this

/-- ParseInterval after Interval.String -/
theorem parseTop_show (i : Ival) (hwf : WFIv i) : parseIntervalTop (showIval i) = .ok i := by
  unfold parseIntervalTop
  rw [roundtrip i hwf]
  have : ¬ i.stop < i.start := by unfold WFIv at hwf; omega
  simp [this]

theorem splitOn_joinSp (parts : List (List Char)) (hne : parts ≠ [])
    (hfree : ∀ p ∈ parts, ∀ x ∈ p, x ≠ ' ') : splitOn ' ' (joinSp parts) = parts := by
  induction parts with
  | nil => exact absurd rfl hne
  | cons a rest ih =>
    cases rest with
    | nil => simp [joinSp, splitOn_free ' ' a (hfree a (by simp))]
    | cons b l =>
      simp only [joinSp]
      rw [splitOn_append ' ' a _ (hfree a (by simp))]
      rw [ih (by simp) (fun p hp => hfree p (List.mem_cons_of_mem _ hp))]

theorem parseParts_show (l : List Ival) (hwf : ∀ i ∈ l, WFIv i) :
    parseParts false (l.map showIval) = .ok l := by
  induction l with
  | nil => simp [parseParts]
  | cons i l ih =>
    simp only [List.map_cons, parseParts]
    rw [parseTop_show i (hwf i (by simp)), ih (fun j hj => hwf j (List.mem_cons_of_mem _ hj))]
    simp

/-- ParseIntervalList after IntervalList.String, for every non-empty list of well-formed intervals -/
theorem parse_show_list (l : List Ival) (hne : l ≠ []) (hwf : ∀ i ∈ l, WFIv i) :
    parseIntervalList (showIvalList l) = .ok l := by
  unfold parseIntervalList showIvalList
  rw [splitOn_joinSp (l.map showIval) (by simpa using hne)]
  · exact parseParts_show l hwf
  · intro p hp
    obtain ⟨i, _, rfl⟩ := List.mem_map.mp hp
    exact showIval_no_space i

end Starcal

namespace Starcal

/-- an interval text whose end is before its start is rejected: `a-b` and `a-b]` with b < a -/
theorem parse_rejects_reversed (a : Int) (b : Nat) (closed : Bool) (h : (b : Int) < a) :
    parseIntervalTop (showInt a ++ '-' :: showNat b ++ (if closed then [']'] else [])) = .err := by
  obtain ⟨c, cs, hs, hcs, hc, hne⟩ := showInt_shape a
  have hp := parseInt_showInt a
  rw [hs] at hp
  have hb := showNat_digits b
  have hpb := parseInt_showNat b
  have hab : a ≠ (b : Int) := by omega
  unfold parseIntervalTop parseInterval
  rw [hs]
  rw [parse_pair _ c cs (showNat b) a b closed hcs hc hne hp hb.1 hb.2 hpb hab]
  simp [h]

example : parseIntervalTop "5-3".toList = .err := by decide
example : parseIntervalTop "-(3-5)".toList = .err := by decide
example : parseIntervalTop "-2--5".toList = .err := by decide

end Starcal
