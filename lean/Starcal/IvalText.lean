import Starcal.PHMS
/-! Text forms of intervals and interval lists (interval.go ParseInterval, ParseIntervalList,
    ParseClosedIntervalList, IntervalList.String) on top of the repaired `parseInterval`. -/
namespace Starcal

/-- interval.ParseInterval: parseInterval, then reject end < start -/
def parseIntervalTop (s : List Char) : Res Ival :=
  match parseInterval true s with
  | .ok i => if i.stop < i.start then .err else .ok i
  | r => r

/-- the loop of ParseIntervalList / ParseClosedIntervalList over `strings.Split(str, " ")`;
    the first failing part decides -/
def parseParts (closedAll : Bool) : List (List Char) → Res (List Ival)
  | [] => .ok []
  | p :: ps =>
    match parseIntervalTop p with
    | .ok i =>
      match parseParts closedAll ps with
      | .ok l => .ok ((if closedAll then ⟨i.start, i.stop, true⟩ else i) :: l)
      | r => r
    | .err => .err
    | .panic => .panic

def parseIntervalList (s : List Char) : Res (List Ival) := parseParts false (splitOn ' ' s)
def parseClosedIntervalList (s : List Char) : Res (List Ival) := parseParts true (splitOn ' ' s)

/-- strings.Join(parts, " ") -/
def joinSp : List (List Char) → List Char
  | [] => []
  | [a] => a
  | a :: b :: l => a ++ ' ' :: joinSp (b :: l)

/-- IntervalList.String -/
def showIvalList (l : List Ival) : List Char := joinSp (l.map showIval)

end Starcal
