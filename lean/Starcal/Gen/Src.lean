import Starcal.GoSem
import Starcal.SrcExt
/-! REGENERATED on every run by harness/cmd/extract/srcfn.go from /repo's current source:
    the integer fragment of the Go code as Lean definitions (`none` = run-time panic). Do not edit. -/
set_option linter.unusedVariables false

namespace Starcal.Gen.Src
open Starcal

structure hijri_MonthData where
  Version : List Int
  StartDate : List Int
  StartJd : Int
  MonthLen : List (List Int)
  ExpJd : Int
  MonthLenByYm : List (Int × Int)
  EndJd : Int
deriving DecidableEq, Repr

structure lib_DHMS where
  HMS : GoSem.HMS
  Days : Int
deriving DecidableEq, Repr

structure lib_HMSRange where
  Start : GoSem.HMS
  End : GoSem.HMS
deriving DecidableEq, Repr

structure lib_DateHMS where
  Date : GoSem.Date
  HMS : GoSem.HMS
deriving DecidableEq, Repr

structure interval_IntervalPoint where
  Pos : Int
  IsEnd : Bool
  Closed : Bool
  ListId : Int
deriving DecidableEq, Repr

structure interval_Interval where
  Start : Int
  End : Int
  ClosedEnd : Bool
deriving DecidableEq, Repr

structure interval_IntervalListIntersectionState where
  hasNil : Bool
  start : Int
  openStartList : List Int
  result : List interval_Interval
deriving DecidableEq, Repr

structure rules_WeekMonth where
  WeekIndex : Int
  WeekDay : Int
  Month : Int
deriving DecidableEq, Repr

def julian_monthLen : List Int := [31, 28, 31, 30, 31, 30, 31, 31, 30, 31, 30, 31]
def julian_monthLenSum : List Int := [0, 31, 59, 90, 120, 151, 181, 212, 243, 273, 304, 334, 365]
def jalali_monthLen : List Int := [31, 31, 31, 31, 31, 31, 30, 30, 30, 30, 30, 30]
def jalali_monthLenSum : List Int := [0, 31, 62, 93, 124, 155, 186, 216, 246, 276, 306, 336, 366]
def ethiopian_monthLens : List Int := [30, 30, 30, 30, 30, 30, 30, 30, 30, 30, 30, 35]
def gprol_monthLen : List Int := [31, 28, 31, 30, 31, 30, 31, 31, 30, 31, 30, 31]

/-- utils/divmod.go:4 -/
def utils_Mod (a : Int) (b : Int) : Option Int := do
  let mod ← (GoSem.rem a b)
  if (((decide (mod < 0)) && (decide (b > 0))) || ((decide (mod > 0)) && (decide (b < 0)))) then
    pure (mod + b)
  else
    pure mod

/-- utils/divmod.go:13 -/
def utils_Div (a : Int) (b : Int) : Option Int := do
  let mod ← (GoSem.rem a b)
  if (((decide (mod < 0)) && (decide (b > 0))) || ((decide (mod > 0)) && (decide (b < 0)))) then
    pure ((← (GoSem.quo a b)) - 1)
  else
    (GoSem.quo a b)

/-- utils/divmod.go:22 -/
def utils_Divmod (a : Int) (b : Int) : Option (Int × Int) := do
  let div ← (GoSem.quo a b)
  let mod ← (GoSem.rem a b)
  if (((decide (mod < 0)) && (decide (b > 0))) || ((decide (mod > 0)) && (decide (b < 0)))) then
    pure ((div - 1), (mod + b))
  else
    pure (div, mod)

/-- utils/funcs.go:25 -/
def utils_IntMin (a : Int) (b : Int) : Option Int := do
  if (decide (a < b)) then
    pure a
  else
    pure b

/-- utils/funcs.go:185 -/
def utils_GetHmsBySeconds (second : Int) : Option GoSem.HMS := do
  pure ({ Hour := (GoSem.u8 (Int.tdiv second 3600)), Minute := (GoSem.u8 (Int.tmod (Int.tdiv second 60) 60)), Second := (GoSem.u8 (Int.tmod second 60)) } : GoSem.HMS)

/-- utils/funcs.go:53 -/
def utils_MonthListIsValid (list : (List Int)) : Option Bool := do
  let _r1 ← GoSem.forRange list (fun v => do
      if (!((decide (v > 0)) && (decide (v < 13)))) then
        pure (some false)
      else
        pure none
    )
  match _r1 with
  | some _v => pure _v
  | none =>
    pure true

/-- utils/funcs.go:62 -/
def utils_DayListIsValid (list : (List Int)) : Option Bool := do
  let _r1 ← GoSem.forRange list (fun v => do
      if (!((decide (v > 0)) && (decide (v < 40)))) then
        pure (some false)
      else
        pure none
    )
  match _r1 with
  | some _v => pure _v
  | none =>
    pure true

/-- utils/funcs.go:71 -/
def utils_WeekDayListIsValid (list : (List Int)) : Option Bool := do
  let _r1 ← GoSem.forRange list (fun v => do
      if (!((decide (v ≥ 0)) && (decide (v < 7)))) then
        pure (some false)
      else
        pure none
    )
  match _r1 with
  | some _v => pure _v
  | none =>
    pure true

/-- utils/funcs.go:88 -/
def utils_bisectLeftRange (a : (List Int)) (v : Int) (lo : Int) (hi : Int) : Option Int := do
  let s ← (GoSem.sliceA a lo hi)
  (SrcExt.sort_Search ((s).length : Int) (fun (i : Int) => (do
      pure (decide ((← (GoSem.idx s i)) ≥ v))
      : Option Bool)))

/-- utils/funcs.go:95 -/
def utils_BisectLeft (a : (List Int)) (v : Int) : Option Int := do
  (utils_bisectLeftRange a v 0 ((a).length : Int))

/-- hms.go:35 -/
def lib_GetTotalSeconds (hms : GoSem.HMS) : Option Int := do
  pure ((((hms).Hour * 3600) + ((hms).Minute * 60)) + (hms).Second)

/-- hms.go:39 -/
def lib_GetFloatHour (hms : GoSem.HMS) : Option Rat := do
  pure (((((hms).Hour : Int) : Rat) + ((((hms).Minute : Int) : Rat) / ((60 : Rat) / 1))) + ((((hms).Second : Int) : Rat) / ((3600 : Rat) / 1)))

/-- hms.go:137 -/
def lib_FloatHourToHMS (fh : Rat) : Option GoSem.HMS := do
  let total := (GoSem.ftoi ((Rat.floor ((fh * ((3600 : Rat) / 1)) + ((1 : Rat) / 2)) : Int) : Rat))
  pure ({ Hour := (GoSem.u8 (Int.tdiv total 3600)), Minute := (GoSem.u8 (Int.tmod (Int.tdiv total 60) 60)), Second := (GoSem.u8 (Int.tmod total 60)) } : GoSem.HMS)

/-- date.go:49 -/
def lib_toUint8 (v : Int) : Option Int := do
  if ((decide (v < 0)) || (decide (v > 255))) then
    pure 255
  else
    pure (GoSem.u8 v)

/-- hms.go:43 -/
def lib_HMS_IsValid (hms : GoSem.HMS) : Option Bool := do
  pure (((decide ((hms).Hour < 24)) && (decide ((hms).Minute < 60))) && (decide ((hms).Second < 60)))

/-- date.go:43 -/
def lib_Date_IsValid (date : GoSem.Date) : Option Bool := do
  pure ((((decide ((date).Month > 0)) && (decide ((date).Month < 13))) && (decide ((date).Day > 0))) && (decide ((date).Day < 40)))

/-- hms.go:47 -/
def lib_DHMS_IsValid (dhms : lib_DHMS) : Option Bool := do
  (lib_HMS_IsValid (dhms).HMS)

/-- hms.go:55 -/
def lib_HMSRange_IsValid (hms : lib_HMSRange) : Option Bool := do
  (do if (← (lib_HMS_IsValid (hms).Start)) then (lib_HMS_IsValid (hms).End) else pure false)

/-- date.go:105 -/
def lib_DateHMS_IsValid (dt : lib_DateHMS) : Option Bool := do
  (do if (← (lib_Date_IsValid (dt).Date)) then (lib_HMS_IsValid (dt).HMS) else pure false)

/-- interval/interval.go:171 -/
def interval_Less (p : (List interval_IntervalPoint)) (i : Int) (j : Int) : Option Bool := do
  let a ← (GoSem.idxA p i)
  let b ← (GoSem.idxA p j)
  if (decide ((a).Pos ≠ (b).Pos)) then
    pure (decide ((a).Pos < (b).Pos))
  else
    if ((a).IsEnd != (b).IsEnd) then
      pure (b).IsEnd
    else
      if ((a).Closed != (b).Closed) then
        if (a).IsEnd then
          pure (b).Closed
        else
          pure (a).Closed
      else
        if (decide ((a).ListId ≠ (b).ListId)) then
          pure (decide ((a).ListId < (b).ListId))
        else
          pure false

/-- interval/interval.go:243 -/
def interval_GetPointList (list : (List interval_Interval)) (listId : Int) : Option (List interval_IntervalPoint) := do
  let count := ((list).length : Int)
  let points ← (GoSem.mkLen (2 * count) ({ Pos := 0, IsEnd := false, Closed := false, ListId := 0 } : interval_IntervalPoint))
  let _r1 ← GoSem.forFold (ρ := Empty) (fun points ii interval => do
      let points ← GoSem.setA points (2 * ii) ({ Pos := (interval).Start, IsEnd := false, Closed := true, ListId := listId } : interval_IntervalPoint)
      let points ← GoSem.setA points ((2 * ii) + 1) ({ Pos := (interval).End, IsEnd := true, Closed := (interval).ClosedEnd, ListId := listId } : interval_IntervalPoint)
      pure (GoSem.Flow.next points)
    ) list 0 points
  match _r1 with
  | GoSem.Flow.ret _v => nomatch _v
  | GoSem.Flow.next points =>
    pure points

/-- utils/stack/int64.go:9 -/
def stack_Pop (s : (List Int)) : Option ((List Int) × Int) := do
  let l := ((s).length : Int)
  pure ((← (GoSem.takeA s (l - 1))), (← (GoSem.idx s (l - 1))))

/-- utils/stack/int64.go:5 -/
def stack_Push (s : (List Int)) (v : Int) : Option (List Int) := do
  pure (s ++ [v])

/-- interval/interval.go:198 -/
def interval_GetIntervalList (points : (List interval_IntervalPoint)) : Option (Option (List interval_Interval)) := do
  let pcount := ((points).length : Int)
  let list ← (GoSem.mkCap (α := interval_Interval) (Int.tdiv pcount 2))
  let startedStack ← (GoSem.mkCap (α := Int) pcount)
  let start := (0 : Int)
  let _r1 ← GoSem.forFold (ρ := (Option (List interval_Interval))) (fun (list, startedStack, start) _i point => do
      if (!(point).IsEnd) then
        let startedStack ← (stack_Push startedStack (point).Pos)
        pure (GoSem.Flow.next (list, startedStack, start))
      else
        if (decide (((startedStack).length : Int) = 0)) then
          pure (GoSem.Flow.ret none)
        else
          let (startedStack, start) ← (stack_Pop startedStack)
          if (decide (((startedStack).length : Int) = 0)) then
            let list := (list ++ [({ Start := start, End := (point).Pos, ClosedEnd := (point).Closed } : interval_Interval)])
            pure (GoSem.Flow.next (list, startedStack, start))
          else
            pure (GoSem.Flow.next (list, startedStack, start))
    ) points 0 (list, startedStack, start)
  match _r1 with
  | GoSem.Flow.ret _v => pure _v
  | GoSem.Flow.next (list, startedStack, start) =>
    pure (some list)

/-- interval/interval.go:331 -/
def interval_Normalize (list : (List interval_Interval)) : Option (Option (List interval_Interval)) := do
  let points ← (interval_GetPointList list 0)
  let points ← SrcExt.sortWith interval_Less points
  (interval_GetIntervalList points)

/-- interval/interval.go:265 -/
def interval_Humanize (list : (List interval_Interval)) : Option (List interval_Interval) := do
  let closedEndCount := (0 : Int)
  let _r1 ← GoSem.forFold (ρ := Empty) (fun closedEndCount _i interval => do
      if ((interval).ClosedEnd && (decide ((interval).End > (interval).Start))) then
        let closedEndCount := (closedEndCount + 1)
        pure (GoSem.Flow.next closedEndCount)
      else
        pure (GoSem.Flow.next closedEndCount)
    ) list 0 closedEndCount
  match _r1 with
  | GoSem.Flow.ret _v => nomatch _v
  | GoSem.Flow.next closedEndCount =>
    if (decide (closedEndCount = 0)) then
      pure list
    else
      let newLen := (((list).length : Int) + closedEndCount)
      let newList ← (GoSem.mkCap (α := interval_Interval) newLen)
      let _r2 ← GoSem.forFold (ρ := Empty) (fun newList _i interval_1 => do
          if ((interval_1).ClosedEnd && (decide ((interval_1).End > (interval_1).Start))) then
            let newList := (newList ++ [({ Start := (interval_1).Start, End := (interval_1).End, ClosedEnd := false } : interval_Interval)])
            let newList := (newList ++ [({ Start := (interval_1).End, End := (interval_1).End, ClosedEnd := true } : interval_Interval)])
            pure (GoSem.Flow.next newList)
          else
            let newList := (newList ++ [interval_1])
            pure (GoSem.Flow.next newList)
        ) list 0 newList
      match _r2 with
      | GoSem.Flow.ret _v => nomatch _v
      | GoSem.Flow.next newList =>
        pure newList

/-- interval/interval.go:337 -/
def interval_Extract (list : (List interval_Interval)) : Option (List Int) := do
  let count := (0 : Int)
  let _r1 ← GoSem.forFold (ρ := Empty) (fun count _i interval => do
      let count := (count + ((interval).End - (interval).Start))
      if (interval).ClosedEnd then
        let count := (count + 1)
        pure (GoSem.Flow.next count)
      else
        pure (GoSem.Flow.next count)
    ) list 0 count
  match _r1 with
  | GoSem.Flow.ret _v => nomatch _v
  | GoSem.Flow.next count =>
    let extList ← (GoSem.mkCap (α := Int) count)
    let _r3 ← GoSem.forFold (ρ := Empty) (fun extList _i interval_1 => do
        let _r2 ← GoSem.forCount (ρ := Empty) (fun extList pos => do
            let extList := (extList ++ [pos])
            pure (GoSem.Flow.next extList)
          ) (interval_1).Start (interval_1).End extList
        match _r2 with
        | GoSem.Flow.ret _v => nomatch _v
        | GoSem.Flow.next extList =>
          if (interval_1).ClosedEnd then
            let extList := (extList ++ [(interval_1).End])
            pure (GoSem.Flow.next extList)
          else
            pure (GoSem.Flow.next extList)
      ) list 0 extList
    match _r3 with
    | GoSem.Flow.ret _v => nomatch _v
    | GoSem.Flow.next extList =>
      pure extList

/-- interval/interval.go:463 -/
def interval_IntervalListByNumList (nums : (List Int)) (minCount : Int) : Option (List interval_Interval) := do
  let list ← (GoSem.mkCap (α := interval_Interval) ((nums).length : Int))
  let tmpNums ← (GoSem.mkCap (α := Int) ((nums).length : Int))
  let _r3 ← GoSem.forFold (ρ := Empty) (fun (list, tmpNums) _i num => do
      let _c1 ← (do if (decide (((tmpNums).length : Int) > 0)) then pure (decide ((num - (← (GoSem.idx tmpNums (((tmpNums).length : Int) - 1)))) ≠ 1)) else pure false)
      let (list, tmpNums) ← (do
        if _c1 then
          let list ← (do
            if (decide (((tmpNums).length : Int) > minCount)) then
              let list := (list ++ [({ Start := (← (GoSem.idx tmpNums 0)), End := (← (GoSem.idx tmpNums (((tmpNums).length : Int) - 1))), ClosedEnd := true } : interval_Interval)])
              pure list
            else
              let _r2 ← GoSem.forFold (ρ := Empty) (fun list _i x => do
                  let list := (list ++ [({ Start := x, End := x, ClosedEnd := true } : interval_Interval)])
                  pure (GoSem.Flow.next list)
                ) tmpNums 0 list
              match _r2 with
              | GoSem.Flow.ret _v => nomatch _v
              | GoSem.Flow.next list =>
                pure list
            )
          let tmpNums := ([] : (List Int))
          pure (list, tmpNums)
        else
          pure (list, tmpNums)
        )
      let tmpNums := (tmpNums ++ [num])
      pure (GoSem.Flow.next (list, tmpNums))
    ) nums 0 (list, tmpNums)
  match _r3 with
  | GoSem.Flow.ret _v => nomatch _v
  | GoSem.Flow.next (list, tmpNums) =>
    let list ← (do
      if (decide (((tmpNums).length : Int) > 0)) then
        if (decide (((tmpNums).length : Int) > minCount)) then
          let list := (list ++ [({ Start := (← (GoSem.idx tmpNums 0)), End := (← (GoSem.idx tmpNums (((tmpNums).length : Int) - 1))), ClosedEnd := true } : interval_Interval)])
          pure list
        else
          let _r4 ← GoSem.forFold (ρ := Empty) (fun list _i num_1 => do
              let list := (list ++ [({ Start := num_1, End := num_1, ClosedEnd := true } : interval_Interval)])
              pure (GoSem.Flow.next list)
            ) tmpNums 0 list
          match _r4 with
          | GoSem.Flow.ret _v => nomatch _v
          | GoSem.Flow.next list =>
            pure list
      else
        pure list
      )
    pure list

/-- interval/interval.go:368 -/
def interval_intersectionOfSomeIntervalLists_endPoint (state : interval_IntervalListIntersectionState) (point : interval_IntervalPoint) : Option (Bool × interval_IntervalListIntersectionState) := do
  let state := { state with hasNil := false }
  let state := { state with start := (-9223372036854775808) }
  let _r1 ← GoSem.forFold (ρ := Empty) (fun state _i tmpStart => do
      let state ← (do
        if (decide (tmpStart = (-9223372036854775808))) then
          let state := { state with hasNil := true }
          pure state
        else
          pure state
        )
      if (decide (tmpStart > (state).start)) then
        let state := { state with start := tmpStart }
        pure (GoSem.Flow.next state)
      else
        pure (GoSem.Flow.next state)
    ) (state).openStartList 0 state
  match _r1 with
  | GoSem.Flow.ret _v => nomatch _v
  | GoSem.Flow.next state =>
    if (!(state).hasNil) then
      if (decide ((state).start > (point).Pos)) then
        pure (true, state)
      else
        let state ← (do
          if ((decide ((point).Pos > (state).start)) || (point).Closed) then
            let state := { state with result := ((state).result ++ [({ Start := (state).start, End := (point).Pos, ClosedEnd := (point).Closed } : interval_Interval)]) }
            pure state
          else
            pure state
          )
        let state := { state with openStartList := (← GoSem.setA (state).openStartList (point).ListId (-9223372036854775808)) }
        pure (false, state)
    else
      let state := { state with openStartList := (← GoSem.setA (state).openStartList (point).ListId (-9223372036854775808)) }
      pure (false, state)

/-- interval/interval.go:406 -/
def interval_IntersectionOfSomeIntervalLists (lists : (List (List interval_Interval))) : Option (Option (List interval_Interval)) := do
  let err := false
  let listCount := ((lists).length : Int)
  let intervalCount := (0 : Int)
  let _r2 ← GoSem.forFold (ρ := (Option (List interval_Interval))) (fun (lists, err, intervalCount) listId list => do
      let _t1 ← (interval_Normalize list)
      let (list, err) := (match _t1 with | some _v => (_v, false) | none => (([] : (List interval_Interval)), true))
      if err then
        pure (GoSem.Flow.ret none)
      else
        let lists ← GoSem.setA lists listId list
        let intervalCount := (intervalCount + ((list).length : Int))
        pure (GoSem.Flow.next (lists, err, intervalCount))
    ) lists 0 (lists, err, intervalCount)
  match _r2 with
  | GoSem.Flow.ret _v => pure _v
  | GoSem.Flow.next (lists, err, intervalCount) =>
    let points ← (GoSem.mkCap (α := interval_IntervalPoint) (2 * intervalCount))
    let _r3 ← GoSem.forFold (ρ := Empty) (fun points listId_1 list_1 => do
        let points := (points ++ (← (interval_GetPointList list_1 listId_1)))
        pure (GoSem.Flow.next points)
      ) lists 0 points
    match _r3 with
    | GoSem.Flow.ret _v => nomatch _v
    | GoSem.Flow.next points =>
      let points ← SrcExt.sortWith interval_Less points
      let state := ({ openStartList := (← (GoSem.mkLen listCount 0)), result := (← (GoSem.mkCap (α := interval_Interval) intervalCount)), hasNil := false, start := 0 } : interval_IntervalListIntersectionState)
      let _r4 ← GoSem.forCount (ρ := Empty) (fun state i => do
          let state := { state with openStartList := (← GoSem.setA (state).openStartList i (-9223372036854775808)) }
          pure (GoSem.Flow.next state)
        ) 0 listCount state
      match _r4 with
      | GoSem.Flow.ret _v => nomatch _v
      | GoSem.Flow.next state =>
        let _r5 ← GoSem.forFold (ρ := (Option (List interval_Interval))) (fun state _i point => do
            if (point).IsEnd then
              let (err_1, state) ← (interval_intersectionOfSomeIntervalLists_endPoint state point)
              if err_1 then
                pure (GoSem.Flow.ret none)
              else
                pure (GoSem.Flow.next state)
            else
              if (decide ((← (GoSem.idx (state).openStartList (point).ListId)) ≠ (-9223372036854775808))) then
                pure (GoSem.Flow.ret none)
              else
                let state := { state with openStartList := (← GoSem.setA (state).openStartList (point).ListId (point).Pos) }
                pure (GoSem.Flow.next state)
          ) points 0 state
        match _r5 with
        | GoSem.Flow.ret _v => pure _v
        | GoSem.Flow.next state =>
          pure (some (state).result)

/-- interval/interval.go:357 -/
def interval_Intersection (list : (List interval_Interval)) (list2 : (List interval_Interval)) : Option (Option (List interval_Interval)) := do
  (interval_IntersectionOfSomeIntervalLists [list, list2])

/-- event/rules_lib/18_weekMonth.go:46 -/
def rules_WeekMonth_IsValid (wm : rules_WeekMonth) : Option Bool := do
  pure ((((((decide ((wm).Month ≥ 0)) && (decide ((wm).Month ≤ 12))) && (decide ((wm).WeekIndex ≥ 0))) && (decide ((wm).WeekIndex ≤ 4))) && (decide ((wm).WeekDay ≥ 0))) && (decide ((wm).WeekDay ≤ 6)))

/-- cal_types/julian/julian.go:114 -/
def julian_IsLeap (year : Int) : Option Bool := do
  pure (decide ((Int.tmod year 4) = 0))

/-- cal_types/julian/julian.go:118 -/
def julian_getYearDays (month : Int) (leap : Bool) : Option Int := do
  let ydays ← (GoSem.idx julian_monthLenSum (GoSem.u8 (month - 1)))
  let ydays ← (do
    if (leap && (decide (month < 3))) then
      let ydays := (ydays - 1)
      pure ydays
    else
      pure ydays
    )
  pure ydays

/-- cal_types/julian/julian.go:127 -/
def julian_getMonthDayFromYdays (yDays : Int) (leap : Bool) : Option (Int × Int) := do
  let month := (1 : Int)
  let month ← GoSem.whileFuel GoSem.fuel
    (fun month => do (do if (decide (month < 12)) then pure (decide (yDays > (← (julian_getYearDays (GoSem.u8 (month + 1)) leap)))) else pure false))
    (fun month => do
      let month := (GoSem.u8 (month + 1))
      pure month
    )
    month
  let day := (GoSem.u8 (yDays - (← (julian_getYearDays month leap))))
  pure (month, day)

/-- cal_types/julian/julian.go:137 -/
def julian_ToJd (date : GoSem.Date) : Option Int := do
  let (quadCount, yMode) ← (utils_Divmod (date).Year 4)
  pure ((((1721058 + (1461 * quadCount)) + (365 * yMode)) + (← (julian_getYearDays (date).Month (decide (yMode = 0))))) + (date).Day)

/-- cal_types/julian/julian.go:146 -/
def julian_JdTo (jd : Int) : Option GoSem.Date := do
  let (quadCount, quadDays) ← (utils_Divmod (jd - 1721058) 1461)
  if (decide (quadDays = 0)) then
    (SrcExt.lib_NewDate (4 * quadCount) 1 1)
  else
    let (yMode, yDays) ← (utils_Divmod (quadDays - 1) 365)
    let yDays := (yDays + 1)
    let year := ((4 * quadCount) + yMode)
    let (month, day) ← (julian_getMonthDayFromYdays yDays (decide (yMode = 0)))
    (SrcExt.lib_NewDate year month day)

/-- cal_types/julian/julian.go:162 -/
def julian_GetMonthLen (year : Int) (month : Int) : Option Int := do
  if (decide (month = 2)) then
    let _c1 ← (julian_IsLeap year)
    if _c1 then
      pure 29
    else
      pure 28
  else
    (GoSem.idx julian_monthLen (GoSem.u8 (month - 1)))

/-- cal_types/jalali/jalali.go:116 -/
def jalali_IsLeap (alg2820 : Bool) (year : Int) : Option Bool := do
  if alg2820 then
    pure (decide ((← (utils_Mod ((← (utils_Mod (year - 474) 2820)) * 682) 2816)) < 682))
  else
    let jy := (year - 979)
    let (jyd, jym) ← (utils_Divmod jy 33)
    let (jyd2, jym2) ← (utils_Divmod (jy + 1) 33)
    pure (decide (1 = ((((jyd2 - jyd) * 8) + (Int.tdiv (jym2 + 3) 4)) - (Int.tdiv (jym + 3) 4))))

/-- cal_types/jalali/jalali.go:163 -/
def jalali_getMonthDayFromYdays (yday : Int) : Option (Int × Int) := do
  let month := (GoSem.u8 (← (utils_BisectLeft jalali_monthLenSum yday)))
  let day := (GoSem.u8 (yday - (← (GoSem.idx jalali_monthLenSum (GoSem.u8 (month - 1))))))
  pure (month, day)

/-- cal_types/jalali/jalali.go:133 -/
def jalali_ToJd (alg2820 : Bool) (date : GoSem.Date) : Option Int := do
  if alg2820 then
    let epbase := ((date).Year - 474)
    let (epbase_d, epbase_m) ← (utils_Divmod epbase 2820)
    let epyear := (474 + epbase_m)
    let mm := (GoSem.u8 ((date).Month - 1))
    pure ((((((((date).Day + (mm * 30)) + (← (utils_IntMin 6 mm))) + (← (utils_Div ((epyear * 682) - 110) 2816))) + ((epyear - 1) * 365)) + (epbase_d * 1029983)) + 1948321) - 1)
  else
    let jy := ((date).Year - 979)
    let (jyd, jym) ← (utils_Divmod jy 33)
    pure ((((((((365 * jy) + (jyd * 8)) + (← (utils_Div (jym + 3) 4))) + (← (GoSem.idx jalali_monthLenSum (GoSem.u8 ((date).Month - 1))))) + (date).Day) - 1) + 584101) + 1721426)

/-- cal_types/jalali/jalali.go:170 -/
def jalali_JdTo (alg2820 : Bool) (jd : Int) : Option GoSem.Date := do
  if alg2820 then
    let deltaDays := (jd - (← (jalali_ToJd alg2820 (← (SrcExt.lib_NewDate 475 1 1)))))
    let (cycle, cyear) ← (utils_Divmod deltaDays 1029983)
    let ycycle := (0 : Int)
    let ycycle ← (do
      if (decide (cyear = 1029982)) then
        let ycycle := (2820 : Int)
        pure ycycle
      else
        let (aux1, aux2) ← (utils_Divmod cyear 366)
        let ycycle := (((← (utils_Div (((2134 * aux1) + (2816 * aux2)) + 2815) 1028522)) + (Int.tdiv cyear 366)) + 1)
        pure ycycle
      )
    let year := (((2820 * cycle) + ycycle) + 474)
    let yday := ((jd - (← (jalali_ToJd alg2820 (← (SrcExt.lib_NewDate year 1 1))))) + 1)
    let (month, day) ← (jalali_getMonthDayFromYdays yday)
    (SrcExt.lib_NewDate year month day)
  else
    let jdays := ((jd - 1721426) - 584101)
    let (j_np, jdays) ← (utils_Divmod jdays 12053)
    let (yearFact, jdays) ← (utils_Divmod jdays 1461)
    let year_1 := ((979 + (33 * j_np)) + (4 * yearFact))
    let (jdays, year_1) ← (do
      if (decide (jdays ≥ 366)) then
        let yearPlus := (0 : Int)
        let (yearPlus, jdays) ← (utils_Divmod (jdays - 1) 365)
        let year_1 := (year_1 + yearPlus)
        pure (jdays, year_1)
      else
        pure (jdays, year_1)
      )
    let yday_1 := (jdays + 1)
    let (month_1, day_1) ← (jalali_getMonthDayFromYdays yday_1)
    (SrcExt.lib_NewDate year_1 month_1 day_1)

/-- cal_types/jalali/jalali.go:210 -/
def jalali_GetMonthLen (alg2820 : Bool) (year : Int) (month : Int) : Option Int := do
  if (decide (month = 12)) then
    let _c1 ← (jalali_IsLeap alg2820 year)
    if _c1 then
      pure 30
    else
      pure 29
  else
    (GoSem.idx jalali_monthLen (GoSem.u8 (month - 1)))

/-- cal_types/ethiopian/ethiopian.go:104 -/
def ethiopian_IsLeap (year : Int) : Option Bool := do
  pure (decide ((Int.tmod (year + 1) 4) = 0))

/-- cal_types/ethiopian/ethiopian.go:108 -/
def ethiopian_ToJd (date : GoSem.Date) : Option Int := do
  pure (((((1724235 + (365 * ((date).Year - 1))) + (← (utils_Div (date).Year 4))) + ((GoSem.u8 ((date).Month - 1)) * 30)) + (date).Day) - 15)

/-- cal_types/ethiopian/ethiopian.go:115 -/
def ethiopian_JdTo (jd : Int) : Option GoSem.Date := do
  let (quad, dquad) ← (utils_Divmod (jd - 1724235) 1461)
  let yindex ← (utils_IntMin 3 (Int.tdiv dquad 365))
  let year := (((quad * 4) + yindex) + 1)
  let yearday := (jd - (← (ethiopian_ToJd (← (SrcExt.lib_NewDate year 1 1)))))
  let month := ((Int.tdiv yearday 30) + 1)
  let day := ((Int.tmod yearday 30) + 1)
  let (month, day) ← (do
    if (decide (month = 13)) then
      let month := (month - 1)
      let day := (day + 30)
      pure (month, day)
    else
      pure (month, day)
    )
  let (year, month, day) ← (do
    if (decide (month = 12)) then
      let mLen := (35 : Int)
      let _c1 ← (ethiopian_IsLeap year)
      let mLen ← (do
        if _c1 then
          let mLen := (mLen + 1)
          pure mLen
        else
          pure mLen
        )
      if (decide (day > mLen)) then
        let year := (year + 1)
        let month := (1 : Int)
        let day := (day - mLen)
        pure (year, month, day)
      else
        pure (year, month, day)
    else
      pure (year, month, day)
    )
  (SrcExt.lib_NewDate year (GoSem.u8 month) (GoSem.u8 day))

/-- cal_types/ethiopian/ethiopian.go:142 -/
def ethiopian_GetMonthLen (year : Int) (month : Int) : Option Int := do
  if (decide (month = 12)) then
    let _c1 ← (ethiopian_IsLeap year)
    if _c1 then
      pure 36
    else
      pure 35
  else
    (GoSem.idx ethiopian_monthLens (GoSem.u8 (month - 1)))

/-- cal_types/gregorian_proleptic/gregorian_proleptic.go:112 -/
def gprol_IsLeap (year : Int) : Option Bool := do
  let year ← (do
    if (decide (year < 1)) then
      let year := (year + 1)
      pure year
    else
      pure year
    )
  pure ((decide ((Int.tmod year 4) = 0)) && ((decide ((Int.tmod year 100) ≠ 0)) || (decide ((Int.tmod year 400) = 0))))

/-- cal_types/gregorian_proleptic/gregorian_proleptic.go:119 -/
def gprol_ToJd (date : GoSem.Date) : Option Int := do
  let a := (0 : Int)
  let a ← (do
    if (decide ((date).Month < 3)) then
      let a := (1 : Int)
      pure a
    else
      pure a
    )
  let y := (((date).Year + 4800) - a)
  let y ← (do
    if (decide ((date).Year < 1)) then
      let y := (y + 1)
      pure y
    else
      pure y
    )
  let m := (((date).Month + (12 * a)) - 3)
  pure (((((((365 * y) + (← (utils_Div y 4))) - (← (utils_Div y 100))) + (← (utils_Div y 400))) - 32045) + (← (utils_Div ((153 * m) + 2) 5))) + (date).Day)

/-- cal_types/gregorian_proleptic/gregorian_proleptic.go:147 -/
def gprol_JdTo (jd : Int) : Option GoSem.Date := do
  let a := (jd + 32044)
  let b ← (utils_Div ((4 * a) + 3) 146097)
  let c := (a - (← (utils_Div (146097 * b) 4)))
  let d ← (utils_Div ((4 * c) + 3) 1461)
  let e := (c - (← (utils_Div (1461 * d) 4)))
  let m ← (utils_Div ((5 * e) + 2) 153)
  let day := (GoSem.u8 ((e - (← (utils_Div ((153 * m) + 2) 5))) + 1))
  let month := (GoSem.u8 ((m + 3) - (12 * (← (utils_Div m 10)))))
  let year := ((((100 * b) + d) - 4800) + (← (utils_Div m 10)))
  let year ← (do
    if (decide (year < 1)) then
      let year := (year - 1)
      pure year
    else
      pure year
    )
  (SrcExt.lib_NewDate year month day)

/-- cal_types/gregorian_proleptic/gregorian_proleptic.go:172 -/
def gprol_GetMonthLen (year : Int) (month : Int) : Option Int := do
  if (decide (month = 2)) then
    let _c1 ← (gprol_IsLeap year)
    if _c1 then
      pure 29
    else
      pure 28
  else
    (GoSem.idx gprol_monthLen (GoSem.u8 (month - 1)))

/-- cal_types/indian_national/indian_national.go:94 -/
def indian_IsLeap (year : Int) : Option Bool := do
  (SrcExt.gregorian_IsLeap (year + 78))

/-- cal_types/indian_national/indian_national.go:98 -/
def indian_ToJd (date : GoSem.Date) : Option Int := do
  let jdFirstDayOfYear := (0 : Int)
  let daysInMonth1 := (0 : Int)
  let _c1 ← (indian_IsLeap (date).Year)
  let (jdFirstDayOfYear, daysInMonth1) ← (do
    if _c1 then
      let jdFirstDayOfYear ← (SrcExt.gregorian_ToJd (← (SrcExt.lib_NewDate ((date).Year + 78) 3 21)))
      let daysInMonth1 := (31 : Int)
      pure (jdFirstDayOfYear, daysInMonth1)
    else
      let jdFirstDayOfYear ← (SrcExt.gregorian_ToJd (← (SrcExt.lib_NewDate ((date).Year + 78) 3 22)))
      let daysInMonth1 := (30 : Int)
      pure (jdFirstDayOfYear, daysInMonth1)
    )
  let jd := (0 : Int)
  let jd ← (do
    if (decide ((date).Month = 1)) then
      let jd := ((jdFirstDayOfYear + (date).Day) - 1)
      pure jd
    else
      if (decide ((date).Month ≤ 6)) then
        let jd := ((((jdFirstDayOfYear + daysInMonth1) + (((date).Month - 2) * 31)) + (date).Day) - 1)
        pure jd
      else
        let jd := (((((jdFirstDayOfYear + daysInMonth1) + 155) + (((date).Month - 7) * 30)) + (date).Day) - 1)
        pure jd
    )
  pure jd

/-- cal_types/indian_national/indian_national.go:136 -/
def indian_JdTo (jd : Int) : Option GoSem.Date := do
  let year := (0 : Int)
  let month := (0 : Int)
  let day := (0 : Int)
  let gDate ← (SrcExt.gregorian_JdTo jd)
  let jdGregorianFirstDayOfYear ← (SrcExt.gregorian_ToJd (← (SrcExt.lib_NewDate (gDate).Year 1 1)))
  let gregorianDayOfYear := ((jd - jdGregorianFirstDayOfYear) + 1)
  let year ← (do
    if (decide (gregorianDayOfYear > 80)) then
      let year := ((gDate).Year - 78)
      pure year
    else
      let year := ((gDate).Year - 79)
      pure year
    )
  let daysInMonth1 := (0 : Int)
  let _c1 ← (indian_IsLeap year)
  let daysInMonth1 ← (do
    if _c1 then
      let daysInMonth1 := (31 : Int)
      pure daysInMonth1
    else
      let daysInMonth1 := (30 : Int)
      pure daysInMonth1
    )
  let indianDayOfYear := (0 : Int)
  let indianDayOfYear ← (do
    if (decide (gregorianDayOfYear > 80)) then
      let indianDayOfYear := (gregorianDayOfYear - 80)
      pure indianDayOfYear
    else
      let indianDayOfYear := ((((gregorianDayOfYear + daysInMonth1) + 155) + 180) - 80)
      pure indianDayOfYear
    )
  let (month, day) ← (do
    if (decide (indianDayOfYear ≤ daysInMonth1)) then
      let month := (1 : Int)
      let day := indianDayOfYear
      pure (month, day)
    else
      if (decide (indianDayOfYear ≤ (daysInMonth1 + 155))) then
        let month := ((Int.tdiv ((indianDayOfYear - daysInMonth1) - 1) 31) + 2)
        let day := ((indianDayOfYear - daysInMonth1) - ((month - 2) * 31))
        pure (month, day)
      else
        let month := ((Int.tdiv (((indianDayOfYear - daysInMonth1) - 155) - 1) 30) + 7)
        let day := (((indianDayOfYear - daysInMonth1) - 155) - ((month - 7) * 30))
        pure (month, day)
    )
  (SrcExt.lib_NewDate year (GoSem.u8 month) (GoSem.u8 day))

/-- cal_types/indian_national/indian_national.go:188 -/
def indian_GetMonthLen (year : Int) (month : Int) : Option Int := do
  if (decide (month = 1)) then
    let _c1 ← (indian_IsLeap year)
    if _c1 then
      pure 31
    else
      pure 30
  else
    if ((decide (2 ≤ month)) && (decide (month ≤ 6))) then
      pure 31
    else
      pure 30

/-- cal_types/hijri/hijri.go:244 -/
def hijri_IsLeap (year : Int) : Option Bool := do
  pure (decide ((← (utils_Mod ((year * 11) + 14) 30)) < 11))

/-- cal_types/hijri/hijri.go:248 -/
def hijri_ToJd (date : GoSem.Date) : Option Int := do
  pure (((((date).Day + (GoSem.ftoi ((Rat.ceil (((59 : Rat) / 2) * (((GoSem.u8 ((date).Month - 1)) : Int) : Rat)) : Int) : Rat))) + (((date).Year - 1) * 354)) + (← (utils_Div ((11 * (date).Year) + 3) 30))) + 1948440)

/-- cal_types/hijri/hijri.go:262 -/
def hijri_JdTo (jd : Int) : Option GoSem.Date := do
  let year ← (utils_Div ((30 * ((jd - 1) - 1948440)) + 10646) 10631)
  let month := (GoSem.u8 (← (utils_IntMin 12 (GoSem.ftoi ((Rat.ceil (((((jd : Int) : Rat) + ((1 : Rat) / 2)) - (((← (hijri_ToJd (← (SrcExt.lib_NewDate year 1 1)))) : Int) : Rat)) / ((59 : Rat) / 2)) : Int) : Rat)))))
  let day := (GoSem.u8 ((jd - (← (hijri_ToJd (← (SrcExt.lib_NewDate year month 1))))) + 1))
  (SrcExt.lib_NewDate year month day)

/-- cal_types/hijri/hijri.go:281 -/
def hijri_GetMonthLen (year : Int) (month : Int) : Option Int := do
  if (decide ((Int.tmod month 2) = 1)) then
    pure 30
  else
    let _c1 ← (do if (decide (month = 12)) then (hijri_IsLeap year) else pure false)
    if _c1 then
      pure 30
    else
      pure 29

/-- cal_types/hijri/hijri.go:133 -/
def hijri_MonthData_GetDateFromJd (mdata : hijri_MonthData) (jd : Int) : Option (Option GoSem.Date) := do
  if (!((decide ((mdata).EndJd ≥ jd)) && (decide (jd ≥ (mdata).StartJd)))) then
    pure none
  else
    let y ← (GoSem.idx (mdata).StartDate 0)
    let m ← (GoSem.idx (mdata).StartDate 1)
    let d ← (GoSem.idx (mdata).StartDate 2)
    let ym := (((y * 12) + m) - 1)
    let startJd := (mdata).StartJd
    let _r1 ← GoSem.whileB (ρ := (Option GoSem.Date)) GoSem.fuel
      (fun (jd, d, ym) => do pure (decide (jd > startJd)))
      (fun (jd, d, ym) => do
        let monthLen := (GoSem.mapGet (mdata).MonthLenByYm ym)
        let jdm0 := (jd - monthLen)
        if (decide (jdm0 ≤ (startJd - d))) then
          let d := ((d + jd) - startJd)
          pure (GoSem.Flow.ret (Sum.inr (jd, d, ym)))
        else
          if ((decide ((startJd - d) < jdm0)) && (decide (jdm0 ≤ startJd))) then
            let ym := (ym + 1)
            let d := (((d + jd) - startJd) - monthLen)
            pure (GoSem.Flow.ret (Sum.inr (jd, d, ym)))
          else
            let ym := (ym + 1)
            let jd := (jd - monthLen)
            pure (GoSem.Flow.next (jd, d, ym))
      )
      (jd, d, ym)
    match _r1 with
    | GoSem.Flow.ret _v => pure _v
    | GoSem.Flow.next (jd, d, ym) =>
      let (year, mm) ← (utils_Divmod ym 12)
      pure (some (← (SrcExt.lib_NewDate year (GoSem.u8 (mm + 1)) (GoSem.u8 d))))

/-- cal_types/hijri/hijri.go:169 -/
def hijri_MonthData_GetJdFromDate (mdata : hijri_MonthData) (date : GoSem.Date) : Option (Int × Bool) := do
  let year := (date).Year
  let ym := (((year * 12) + (date).Month) - 1)
  let (_u1, ok) := GoSem.mapGet2 (mdata).MonthLenByYm (ym - 1)
  if (!ok) then
    pure (0, false)
  else
    let ym0 := ((((← (GoSem.idx (mdata).StartDate 0)) * 12) + (← (GoSem.idx (mdata).StartDate 1))) - 1)
    let jd := (mdata).StartJd
    let _r2 ← GoSem.forCount (ρ := Empty) (fun jd ymi => do
        let (plus, ok_1) := GoSem.mapGet2 (mdata).MonthLenByYm ymi
        if (!ok_1) then
          none
        else
          let jd := (jd + plus)
          pure (GoSem.Flow.next jd)
      ) ym0 ym jd
    match _r2 with
    | GoSem.Flow.ret _v => nomatch _v
    | GoSem.Flow.next jd =>
      pure (((jd + (date).Day) - 1), true)

/-- cal_types/hijri/hijri.go:244 -/
def hijriT_IsLeap (year : Int) : Option Bool := do
  pure (decide ((← (utils_Mod ((year * 11) + 14) 30)) < 11))

/-- cal_types/hijri/hijri.go:169 -/
def hijriT_MonthData_GetJdFromDate (mdata : hijri_MonthData) (date : GoSem.Date) : Option (Int × Bool) := do
  let year := (date).Year
  let ym := (((year * 12) + (date).Month) - 1)
  let (_u1, ok) := GoSem.mapGet2 (mdata).MonthLenByYm (ym - 1)
  if (!ok) then
    pure (0, false)
  else
    let ym0 := ((((← (GoSem.idx (mdata).StartDate 0)) * 12) + (← (GoSem.idx (mdata).StartDate 1))) - 1)
    let jd := (mdata).StartJd
    let _r2 ← GoSem.forCount (ρ := Empty) (fun jd ymi => do
        let (plus, ok_1) := GoSem.mapGet2 (mdata).MonthLenByYm ymi
        if (!ok_1) then
          none
        else
          let jd := (jd + plus)
          pure (GoSem.Flow.next jd)
      ) ym0 ym jd
    match _r2 with
    | GoSem.Flow.ret _v => nomatch _v
    | GoSem.Flow.next jd =>
      pure (((jd + (date).Day) - 1), true)

/-- cal_types/hijri/hijri.go:133 -/
def hijriT_MonthData_GetDateFromJd (mdata : hijri_MonthData) (jd : Int) : Option (Option GoSem.Date) := do
  if (!((decide ((mdata).EndJd ≥ jd)) && (decide (jd ≥ (mdata).StartJd)))) then
    pure none
  else
    let y ← (GoSem.idx (mdata).StartDate 0)
    let m ← (GoSem.idx (mdata).StartDate 1)
    let d ← (GoSem.idx (mdata).StartDate 2)
    let ym := (((y * 12) + m) - 1)
    let startJd := (mdata).StartJd
    let _r1 ← GoSem.whileB (ρ := (Option GoSem.Date)) GoSem.fuel
      (fun (jd, d, ym) => do pure (decide (jd > startJd)))
      (fun (jd, d, ym) => do
        let monthLen := (GoSem.mapGet (mdata).MonthLenByYm ym)
        let jdm0 := (jd - monthLen)
        if (decide (jdm0 ≤ (startJd - d))) then
          let d := ((d + jd) - startJd)
          pure (GoSem.Flow.ret (Sum.inr (jd, d, ym)))
        else
          if ((decide ((startJd - d) < jdm0)) && (decide (jdm0 ≤ startJd))) then
            let ym := (ym + 1)
            let d := (((d + jd) - startJd) - monthLen)
            pure (GoSem.Flow.ret (Sum.inr (jd, d, ym)))
          else
            let ym := (ym + 1)
            let jd := (jd - monthLen)
            pure (GoSem.Flow.next (jd, d, ym))
      )
      (jd, d, ym)
    match _r1 with
    | GoSem.Flow.ret _v => pure _v
    | GoSem.Flow.next (jd, d, ym) =>
      let (year, mm) ← (utils_Divmod ym 12)
      pure (some (← (SrcExt.lib_NewDate year (GoSem.u8 (mm + 1)) (GoSem.u8 d))))

/-- cal_types/hijri/hijri.go:248 -/
def hijriT_ToJd (monthData : hijri_MonthData) (date : GoSem.Date) : Option Int := do
  let (jd, ok) ← (hijriT_MonthData_GetJdFromDate monthData date)
  if ok then
    pure jd
  else
    pure (((((date).Day + (GoSem.ftoi ((Rat.ceil (((59 : Rat) / 2) * (((GoSem.u8 ((date).Month - 1)) : Int) : Rat)) : Int) : Rat))) + (((date).Year - 1) * 354)) + (← (utils_Div ((11 * (date).Year) + 3) 30))) + 1948440)

/-- cal_types/hijri/hijri.go:262 -/
def hijriT_JdTo (monthData : hijri_MonthData) (jd : Int) : Option GoSem.Date := do
  let date ← (hijriT_MonthData_GetDateFromJd monthData jd)
  if (date).isSome then
    date
  else
    let year ← (utils_Div ((30 * ((jd - 1) - 1948440)) + 10646) 10631)
    let month := (GoSem.u8 (← (utils_IntMin 12 (GoSem.ftoi ((Rat.ceil (((((jd : Int) : Rat) + ((1 : Rat) / 2)) - (((← (hijriT_ToJd monthData (← (SrcExt.lib_NewDate year 1 1)))) : Int) : Rat)) / ((59 : Rat) / 2)) : Int) : Rat)))))
    let day := (GoSem.u8 ((jd - (← (hijriT_ToJd monthData (← (SrcExt.lib_NewDate year month 1))))) + 1))
    (SrcExt.lib_NewDate year month day)

/-- cal_types/hijri/hijri.go:281 -/
def hijriT_GetMonthLen (monthData : hijri_MonthData) (year : Int) (month : Int) : Option Int := do
  if (decide (month = 12)) then
    pure (GoSem.u8 ((← (hijriT_ToJd monthData (← (SrcExt.lib_NewDate (year + 1) 1 1)))) - (← (hijriT_ToJd monthData (← (SrcExt.lib_NewDate year 12 1))))))
  else
    pure (GoSem.u8 ((← (hijriT_ToJd monthData (← (SrcExt.lib_NewDate year (GoSem.u8 (month + 1)) 1)))) - (← (hijriT_ToJd monthData (← (SrcExt.lib_NewDate year month 1))))))

/-! ### overflow-checked copies: the same code with every int / int64 `+ - *`, negation and non-constant `/` passed
    through GoSem.chk64 (`none` when the exact result does not fit in 64 bits) -/

/-- utils/divmod.go:4 -/
def utils_Mod_chk (a : Int) (b : Int) : Option Int := do
  let mod ← (GoSem.rem a b)
  if (((decide (mod < 0)) && (decide (b > 0))) || ((decide (mod > 0)) && (decide (b < 0)))) then
    (GoSem.chk64 (mod + b))
  else
    pure mod

/-- utils/divmod.go:13 -/
def utils_Div_chk (a : Int) (b : Int) : Option Int := do
  let mod ← (GoSem.rem a b)
  if (((decide (mod < 0)) && (decide (b > 0))) || ((decide (mod > 0)) && (decide (b < 0)))) then
    (GoSem.chk64 ((← (GoSem.quo64 a b)) - 1))
  else
    (GoSem.quo64 a b)

/-- utils/divmod.go:22 -/
def utils_Divmod_chk (a : Int) (b : Int) : Option (Int × Int) := do
  let div ← (GoSem.quo64 a b)
  let mod ← (GoSem.rem a b)
  if (((decide (mod < 0)) && (decide (b > 0))) || ((decide (mod > 0)) && (decide (b < 0)))) then
    pure ((← (GoSem.chk64 (div - 1))), (← (GoSem.chk64 (mod + b))))
  else
    pure (div, mod)

/-- utils/funcs.go:25 -/
def utils_IntMin_chk (a : Int) (b : Int) : Option Int := do
  if (decide (a < b)) then
    pure a
  else
    pure b

/-- utils/funcs.go:185 -/
def utils_GetHmsBySeconds_chk (second : Int) : Option GoSem.HMS := do
  pure ({ Hour := (GoSem.u8 (Int.tdiv second 3600)), Minute := (GoSem.u8 (Int.tmod (Int.tdiv second 60) 60)), Second := (GoSem.u8 (Int.tmod second 60)) } : GoSem.HMS)

/-- utils/funcs.go:53 -/
def utils_MonthListIsValid_chk (list : (List Int)) : Option Bool := do
  let _r1 ← GoSem.forRange list (fun v => do
      if (!((decide (v > 0)) && (decide (v < 13)))) then
        pure (some false)
      else
        pure none
    )
  match _r1 with
  | some _v => pure _v
  | none =>
    pure true

/-- utils/funcs.go:62 -/
def utils_DayListIsValid_chk (list : (List Int)) : Option Bool := do
  let _r1 ← GoSem.forRange list (fun v => do
      if (!((decide (v > 0)) && (decide (v < 40)))) then
        pure (some false)
      else
        pure none
    )
  match _r1 with
  | some _v => pure _v
  | none =>
    pure true

/-- utils/funcs.go:71 -/
def utils_WeekDayListIsValid_chk (list : (List Int)) : Option Bool := do
  let _r1 ← GoSem.forRange list (fun v => do
      if (!((decide (v ≥ 0)) && (decide (v < 7)))) then
        pure (some false)
      else
        pure none
    )
  match _r1 with
  | some _v => pure _v
  | none =>
    pure true

/-- utils/funcs.go:88 -/
def utils_bisectLeftRange_chk (a : (List Int)) (v : Int) (lo : Int) (hi : Int) : Option Int := do
  let s ← (GoSem.sliceA a lo hi)
  (SrcExt.sort_Search ((s).length : Int) (fun (i : Int) => (do
      pure (decide ((← (GoSem.idx s i)) ≥ v))
      : Option Bool)))

/-- utils/funcs.go:95 -/
def utils_BisectLeft_chk (a : (List Int)) (v : Int) : Option Int := do
  (utils_bisectLeftRange_chk a v 0 ((a).length : Int))

/-- hms.go:35 -/
def lib_GetTotalSeconds_chk (hms : GoSem.HMS) : Option Int := do
  (GoSem.chk64 ((← (GoSem.chk64 ((← (GoSem.chk64 ((hms).Hour * 3600))) + (← (GoSem.chk64 ((hms).Minute * 60)))))) + (hms).Second))

/-- hms.go:39 -/
def lib_GetFloatHour_chk (hms : GoSem.HMS) : Option Rat := do
  pure (((((hms).Hour : Int) : Rat) + ((((hms).Minute : Int) : Rat) / ((60 : Rat) / 1))) + ((((hms).Second : Int) : Rat) / ((3600 : Rat) / 1)))

/-- hms.go:137 -/
def lib_FloatHourToHMS_chk (fh : Rat) : Option GoSem.HMS := do
  let total := (GoSem.ftoi ((Rat.floor ((fh * ((3600 : Rat) / 1)) + ((1 : Rat) / 2)) : Int) : Rat))
  pure ({ Hour := (GoSem.u8 (Int.tdiv total 3600)), Minute := (GoSem.u8 (Int.tmod (Int.tdiv total 60) 60)), Second := (GoSem.u8 (Int.tmod total 60)) } : GoSem.HMS)

/-- date.go:49 -/
def lib_toUint8_chk (v : Int) : Option Int := do
  if ((decide (v < 0)) || (decide (v > 255))) then
    pure 255
  else
    pure (GoSem.u8 v)

/-- hms.go:43 -/
def lib_HMS_IsValid_chk (hms : GoSem.HMS) : Option Bool := do
  pure (((decide ((hms).Hour < 24)) && (decide ((hms).Minute < 60))) && (decide ((hms).Second < 60)))

/-- date.go:43 -/
def lib_Date_IsValid_chk (date : GoSem.Date) : Option Bool := do
  pure ((((decide ((date).Month > 0)) && (decide ((date).Month < 13))) && (decide ((date).Day > 0))) && (decide ((date).Day < 40)))

/-- hms.go:47 -/
def lib_DHMS_IsValid_chk (dhms : lib_DHMS) : Option Bool := do
  (lib_HMS_IsValid_chk (dhms).HMS)

/-- hms.go:55 -/
def lib_HMSRange_IsValid_chk (hms : lib_HMSRange) : Option Bool := do
  (do if (← (lib_HMS_IsValid_chk (hms).Start)) then (lib_HMS_IsValid_chk (hms).End) else pure false)

/-- date.go:105 -/
def lib_DateHMS_IsValid_chk (dt : lib_DateHMS) : Option Bool := do
  (do if (← (lib_Date_IsValid_chk (dt).Date)) then (lib_HMS_IsValid_chk (dt).HMS) else pure false)

/-- interval/interval.go:171 -/
def interval_Less_chk (p : (List interval_IntervalPoint)) (i : Int) (j : Int) : Option Bool := do
  let a ← (GoSem.idxA p i)
  let b ← (GoSem.idxA p j)
  if (decide ((a).Pos ≠ (b).Pos)) then
    pure (decide ((a).Pos < (b).Pos))
  else
    if ((a).IsEnd != (b).IsEnd) then
      pure (b).IsEnd
    else
      if ((a).Closed != (b).Closed) then
        if (a).IsEnd then
          pure (b).Closed
        else
          pure (a).Closed
      else
        if (decide ((a).ListId ≠ (b).ListId)) then
          pure (decide ((a).ListId < (b).ListId))
        else
          pure false

/-- interval/interval.go:243 -/
def interval_GetPointList_chk (list : (List interval_Interval)) (listId : Int) : Option (List interval_IntervalPoint) := do
  let count := ((list).length : Int)
  let points ← (GoSem.mkLen (← (GoSem.chk64 (2 * count))) ({ Pos := 0, IsEnd := false, Closed := false, ListId := 0 } : interval_IntervalPoint))
  let _r1 ← GoSem.forFold (ρ := Empty) (fun points ii interval => do
      let points ← GoSem.setA points (← (GoSem.chk64 (2 * ii))) ({ Pos := (interval).Start, IsEnd := false, Closed := true, ListId := listId } : interval_IntervalPoint)
      let points ← GoSem.setA points (← (GoSem.chk64 ((← (GoSem.chk64 (2 * ii))) + 1))) ({ Pos := (interval).End, IsEnd := true, Closed := (interval).ClosedEnd, ListId := listId } : interval_IntervalPoint)
      pure (GoSem.Flow.next points)
    ) list 0 points
  match _r1 with
  | GoSem.Flow.ret _v => nomatch _v
  | GoSem.Flow.next points =>
    pure points

/-- utils/stack/int64.go:9 -/
def stack_Pop_chk (s : (List Int)) : Option ((List Int) × Int) := do
  let l := ((s).length : Int)
  pure ((← (GoSem.takeA s (← (GoSem.chk64 (l - 1))))), (← (GoSem.idx s (← (GoSem.chk64 (l - 1))))))

/-- utils/stack/int64.go:5 -/
def stack_Push_chk (s : (List Int)) (v : Int) : Option (List Int) := do
  pure (s ++ [v])

/-- interval/interval.go:198 -/
def interval_GetIntervalList_chk (points : (List interval_IntervalPoint)) : Option (Option (List interval_Interval)) := do
  let pcount := ((points).length : Int)
  let list ← (GoSem.mkCap (α := interval_Interval) (Int.tdiv pcount 2))
  let startedStack ← (GoSem.mkCap (α := Int) pcount)
  let start := (0 : Int)
  let _r1 ← GoSem.forFold (ρ := (Option (List interval_Interval))) (fun (list, startedStack, start) _i point => do
      if (!(point).IsEnd) then
        let startedStack ← (stack_Push_chk startedStack (point).Pos)
        pure (GoSem.Flow.next (list, startedStack, start))
      else
        if (decide (((startedStack).length : Int) = 0)) then
          pure (GoSem.Flow.ret none)
        else
          let (startedStack, start) ← (stack_Pop_chk startedStack)
          if (decide (((startedStack).length : Int) = 0)) then
            let list := (list ++ [({ Start := start, End := (point).Pos, ClosedEnd := (point).Closed } : interval_Interval)])
            pure (GoSem.Flow.next (list, startedStack, start))
          else
            pure (GoSem.Flow.next (list, startedStack, start))
    ) points 0 (list, startedStack, start)
  match _r1 with
  | GoSem.Flow.ret _v => pure _v
  | GoSem.Flow.next (list, startedStack, start) =>
    pure (some list)

/-- interval/interval.go:331 -/
def interval_Normalize_chk (list : (List interval_Interval)) : Option (Option (List interval_Interval)) := do
  let points ← (interval_GetPointList_chk list 0)
  let points ← SrcExt.sortWith interval_Less points
  (interval_GetIntervalList_chk points)

/-- interval/interval.go:265 -/
def interval_Humanize_chk (list : (List interval_Interval)) : Option (List interval_Interval) := do
  let closedEndCount := (0 : Int)
  let _r1 ← GoSem.forFold (ρ := Empty) (fun closedEndCount _i interval => do
      if ((interval).ClosedEnd && (decide ((interval).End > (interval).Start))) then
        let closedEndCount ← (GoSem.chk64 (closedEndCount + 1))
        pure (GoSem.Flow.next closedEndCount)
      else
        pure (GoSem.Flow.next closedEndCount)
    ) list 0 closedEndCount
  match _r1 with
  | GoSem.Flow.ret _v => nomatch _v
  | GoSem.Flow.next closedEndCount =>
    if (decide (closedEndCount = 0)) then
      pure list
    else
      let newLen ← (GoSem.chk64 (((list).length : Int) + closedEndCount))
      let newList ← (GoSem.mkCap (α := interval_Interval) newLen)
      let _r2 ← GoSem.forFold (ρ := Empty) (fun newList _i interval_1 => do
          if ((interval_1).ClosedEnd && (decide ((interval_1).End > (interval_1).Start))) then
            let newList := (newList ++ [({ Start := (interval_1).Start, End := (interval_1).End, ClosedEnd := false } : interval_Interval)])
            let newList := (newList ++ [({ Start := (interval_1).End, End := (interval_1).End, ClosedEnd := true } : interval_Interval)])
            pure (GoSem.Flow.next newList)
          else
            let newList := (newList ++ [interval_1])
            pure (GoSem.Flow.next newList)
        ) list 0 newList
      match _r2 with
      | GoSem.Flow.ret _v => nomatch _v
      | GoSem.Flow.next newList =>
        pure newList

/-- interval/interval.go:337 -/
def interval_Extract_chk (list : (List interval_Interval)) : Option (List Int) := do
  let count := (0 : Int)
  let _r1 ← GoSem.forFold (ρ := Empty) (fun count _i interval => do
      let count ← (GoSem.chk64 (count + (← (GoSem.chk64 ((interval).End - (interval).Start)))))
      if (interval).ClosedEnd then
        let count ← (GoSem.chk64 (count + 1))
        pure (GoSem.Flow.next count)
      else
        pure (GoSem.Flow.next count)
    ) list 0 count
  match _r1 with
  | GoSem.Flow.ret _v => nomatch _v
  | GoSem.Flow.next count =>
    let extList ← (GoSem.mkCap (α := Int) count)
    let _r3 ← GoSem.forFold (ρ := Empty) (fun extList _i interval_1 => do
        let _r2 ← GoSem.forCount (ρ := Empty) (fun extList pos => do
            let extList := (extList ++ [pos])
            pure (GoSem.Flow.next extList)
          ) (interval_1).Start (interval_1).End extList
        match _r2 with
        | GoSem.Flow.ret _v => nomatch _v
        | GoSem.Flow.next extList =>
          if (interval_1).ClosedEnd then
            let extList := (extList ++ [(interval_1).End])
            pure (GoSem.Flow.next extList)
          else
            pure (GoSem.Flow.next extList)
      ) list 0 extList
    match _r3 with
    | GoSem.Flow.ret _v => nomatch _v
    | GoSem.Flow.next extList =>
      pure extList

/-- interval/interval.go:463 -/
def interval_IntervalListByNumList_chk (nums : (List Int)) (minCount : Int) : Option (List interval_Interval) := do
  let list ← (GoSem.mkCap (α := interval_Interval) ((nums).length : Int))
  let tmpNums ← (GoSem.mkCap (α := Int) ((nums).length : Int))
  let _r3 ← GoSem.forFold (ρ := Empty) (fun (list, tmpNums) _i num => do
      let _c1 ← (do if (decide (((tmpNums).length : Int) > 0)) then pure (decide ((← (GoSem.chk64 (num - (← (GoSem.idx tmpNums (← (GoSem.chk64 (((tmpNums).length : Int) - 1)))))))) ≠ 1)) else pure false)
      let (list, tmpNums) ← (do
        if _c1 then
          let list ← (do
            if (decide (((tmpNums).length : Int) > minCount)) then
              let list := (list ++ [({ Start := (← (GoSem.idx tmpNums 0)), End := (← (GoSem.idx tmpNums (← (GoSem.chk64 (((tmpNums).length : Int) - 1))))), ClosedEnd := true } : interval_Interval)])
              pure list
            else
              let _r2 ← GoSem.forFold (ρ := Empty) (fun list _i x => do
                  let list := (list ++ [({ Start := x, End := x, ClosedEnd := true } : interval_Interval)])
                  pure (GoSem.Flow.next list)
                ) tmpNums 0 list
              match _r2 with
              | GoSem.Flow.ret _v => nomatch _v
              | GoSem.Flow.next list =>
                pure list
            )
          let tmpNums := ([] : (List Int))
          pure (list, tmpNums)
        else
          pure (list, tmpNums)
        )
      let tmpNums := (tmpNums ++ [num])
      pure (GoSem.Flow.next (list, tmpNums))
    ) nums 0 (list, tmpNums)
  match _r3 with
  | GoSem.Flow.ret _v => nomatch _v
  | GoSem.Flow.next (list, tmpNums) =>
    let list ← (do
      if (decide (((tmpNums).length : Int) > 0)) then
        if (decide (((tmpNums).length : Int) > minCount)) then
          let list := (list ++ [({ Start := (← (GoSem.idx tmpNums 0)), End := (← (GoSem.idx tmpNums (← (GoSem.chk64 (((tmpNums).length : Int) - 1))))), ClosedEnd := true } : interval_Interval)])
          pure list
        else
          let _r4 ← GoSem.forFold (ρ := Empty) (fun list _i num_1 => do
              let list := (list ++ [({ Start := num_1, End := num_1, ClosedEnd := true } : interval_Interval)])
              pure (GoSem.Flow.next list)
            ) tmpNums 0 list
          match _r4 with
          | GoSem.Flow.ret _v => nomatch _v
          | GoSem.Flow.next list =>
            pure list
      else
        pure list
      )
    pure list

/-- interval/interval.go:368 -/
def interval_intersectionOfSomeIntervalLists_endPoint_chk (state : interval_IntervalListIntersectionState) (point : interval_IntervalPoint) : Option (Bool × interval_IntervalListIntersectionState) := do
  let state := { state with hasNil := false }
  let state := { state with start := (-9223372036854775808) }
  let _r1 ← GoSem.forFold (ρ := Empty) (fun state _i tmpStart => do
      let state ← (do
        if (decide (tmpStart = (-9223372036854775808))) then
          let state := { state with hasNil := true }
          pure state
        else
          pure state
        )
      if (decide (tmpStart > (state).start)) then
        let state := { state with start := tmpStart }
        pure (GoSem.Flow.next state)
      else
        pure (GoSem.Flow.next state)
    ) (state).openStartList 0 state
  match _r1 with
  | GoSem.Flow.ret _v => nomatch _v
  | GoSem.Flow.next state =>
    if (!(state).hasNil) then
      if (decide ((state).start > (point).Pos)) then
        pure (true, state)
      else
        let state ← (do
          if ((decide ((point).Pos > (state).start)) || (point).Closed) then
            let state := { state with result := ((state).result ++ [({ Start := (state).start, End := (point).Pos, ClosedEnd := (point).Closed } : interval_Interval)]) }
            pure state
          else
            pure state
          )
        let state := { state with openStartList := (← GoSem.setA (state).openStartList (point).ListId (-9223372036854775808)) }
        pure (false, state)
    else
      let state := { state with openStartList := (← GoSem.setA (state).openStartList (point).ListId (-9223372036854775808)) }
      pure (false, state)

/-- interval/interval.go:406 -/
def interval_IntersectionOfSomeIntervalLists_chk (lists : (List (List interval_Interval))) : Option (Option (List interval_Interval)) := do
  let err := false
  let listCount := ((lists).length : Int)
  let intervalCount := (0 : Int)
  let _r2 ← GoSem.forFold (ρ := (Option (List interval_Interval))) (fun (lists, err, intervalCount) listId list => do
      let _t1 ← (interval_Normalize_chk list)
      let (list, err) := (match _t1 with | some _v => (_v, false) | none => (([] : (List interval_Interval)), true))
      if err then
        pure (GoSem.Flow.ret none)
      else
        let lists ← GoSem.setA lists listId list
        let intervalCount ← (GoSem.chk64 (intervalCount + ((list).length : Int)))
        pure (GoSem.Flow.next (lists, err, intervalCount))
    ) lists 0 (lists, err, intervalCount)
  match _r2 with
  | GoSem.Flow.ret _v => pure _v
  | GoSem.Flow.next (lists, err, intervalCount) =>
    let points ← (GoSem.mkCap (α := interval_IntervalPoint) (← (GoSem.chk64 (2 * intervalCount))))
    let _r3 ← GoSem.forFold (ρ := Empty) (fun points listId_1 list_1 => do
        let points := (points ++ (← (interval_GetPointList_chk list_1 listId_1)))
        pure (GoSem.Flow.next points)
      ) lists 0 points
    match _r3 with
    | GoSem.Flow.ret _v => nomatch _v
    | GoSem.Flow.next points =>
      let points ← SrcExt.sortWith interval_Less points
      let state := ({ openStartList := (← (GoSem.mkLen listCount 0)), result := (← (GoSem.mkCap (α := interval_Interval) intervalCount)), hasNil := false, start := 0 } : interval_IntervalListIntersectionState)
      let _r4 ← GoSem.forCount (ρ := Empty) (fun state i => do
          let state := { state with openStartList := (← GoSem.setA (state).openStartList i (-9223372036854775808)) }
          pure (GoSem.Flow.next state)
        ) 0 listCount state
      match _r4 with
      | GoSem.Flow.ret _v => nomatch _v
      | GoSem.Flow.next state =>
        let _r5 ← GoSem.forFold (ρ := (Option (List interval_Interval))) (fun state _i point => do
            if (point).IsEnd then
              let (err_1, state) ← (interval_intersectionOfSomeIntervalLists_endPoint_chk state point)
              if err_1 then
                pure (GoSem.Flow.ret none)
              else
                pure (GoSem.Flow.next state)
            else
              if (decide ((← (GoSem.idx (state).openStartList (point).ListId)) ≠ (-9223372036854775808))) then
                pure (GoSem.Flow.ret none)
              else
                let state := { state with openStartList := (← GoSem.setA (state).openStartList (point).ListId (point).Pos) }
                pure (GoSem.Flow.next state)
          ) points 0 state
        match _r5 with
        | GoSem.Flow.ret _v => pure _v
        | GoSem.Flow.next state =>
          pure (some (state).result)

/-- interval/interval.go:357 -/
def interval_Intersection_chk (list : (List interval_Interval)) (list2 : (List interval_Interval)) : Option (Option (List interval_Interval)) := do
  (interval_IntersectionOfSomeIntervalLists_chk [list, list2])

/-- event/rules_lib/18_weekMonth.go:46 -/
def rules_WeekMonth_IsValid_chk (wm : rules_WeekMonth) : Option Bool := do
  pure ((((((decide ((wm).Month ≥ 0)) && (decide ((wm).Month ≤ 12))) && (decide ((wm).WeekIndex ≥ 0))) && (decide ((wm).WeekIndex ≤ 4))) && (decide ((wm).WeekDay ≥ 0))) && (decide ((wm).WeekDay ≤ 6)))

/-- cal_types/julian/julian.go:114 -/
def julian_IsLeap_chk (year : Int) : Option Bool := do
  pure (decide ((Int.tmod year 4) = 0))

/-- cal_types/julian/julian.go:118 -/
def julian_getYearDays_chk (month : Int) (leap : Bool) : Option Int := do
  let ydays ← (GoSem.idx julian_monthLenSum (GoSem.u8 (month - 1)))
  let ydays ← (do
    if (leap && (decide (month < 3))) then
      let ydays ← (GoSem.chk64 (ydays - 1))
      pure ydays
    else
      pure ydays
    )
  pure ydays

/-- cal_types/julian/julian.go:127 -/
def julian_getMonthDayFromYdays_chk (yDays : Int) (leap : Bool) : Option (Int × Int) := do
  let month := (1 : Int)
  let month ← GoSem.whileFuel GoSem.fuel
    (fun month => do (do if (decide (month < 12)) then pure (decide (yDays > (← (julian_getYearDays_chk (GoSem.u8 (month + 1)) leap)))) else pure false))
    (fun month => do
      let month := (GoSem.u8 (month + 1))
      pure month
    )
    month
  let day := (GoSem.u8 (← (GoSem.chk64 (yDays - (← (julian_getYearDays_chk month leap))))))
  pure (month, day)

/-- cal_types/julian/julian.go:137 -/
def julian_ToJd_chk (date : GoSem.Date) : Option Int := do
  let (quadCount, yMode) ← (utils_Divmod_chk (date).Year 4)
  (GoSem.chk64 ((← (GoSem.chk64 ((← (GoSem.chk64 ((← (GoSem.chk64 (1721058 + (← (GoSem.chk64 (1461 * quadCount)))))) + (← (GoSem.chk64 (365 * yMode)))))) + (← (julian_getYearDays_chk (date).Month (decide (yMode = 0))))))) + (date).Day))

/-- cal_types/julian/julian.go:146 -/
def julian_JdTo_chk (jd : Int) : Option GoSem.Date := do
  let (quadCount, quadDays) ← (utils_Divmod_chk (← (GoSem.chk64 (jd - 1721058))) 1461)
  if (decide (quadDays = 0)) then
    (SrcExt.lib_NewDate (← (GoSem.chk64 (4 * quadCount))) 1 1)
  else
    let (yMode, yDays) ← (utils_Divmod_chk (← (GoSem.chk64 (quadDays - 1))) 365)
    let yDays ← (GoSem.chk64 (yDays + 1))
    let year ← (GoSem.chk64 ((← (GoSem.chk64 (4 * quadCount))) + yMode))
    let (month, day) ← (julian_getMonthDayFromYdays_chk yDays (decide (yMode = 0)))
    (SrcExt.lib_NewDate year month day)

/-- cal_types/julian/julian.go:162 -/
def julian_GetMonthLen_chk (year : Int) (month : Int) : Option Int := do
  if (decide (month = 2)) then
    let _c1 ← (julian_IsLeap_chk year)
    if _c1 then
      pure 29
    else
      pure 28
  else
    (GoSem.idx julian_monthLen (GoSem.u8 (month - 1)))

/-- cal_types/jalali/jalali.go:116 -/
def jalali_IsLeap_chk (alg2820 : Bool) (year : Int) : Option Bool := do
  if alg2820 then
    pure (decide ((← (utils_Mod_chk (← (GoSem.chk64 ((← (utils_Mod_chk (← (GoSem.chk64 (year - 474))) 2820)) * 682))) 2816)) < 682))
  else
    let jy ← (GoSem.chk64 (year - 979))
    let (jyd, jym) ← (utils_Divmod_chk jy 33)
    let (jyd2, jym2) ← (utils_Divmod_chk (← (GoSem.chk64 (jy + 1))) 33)
    pure (decide (1 = (← (GoSem.chk64 ((← (GoSem.chk64 ((← (GoSem.chk64 ((← (GoSem.chk64 (jyd2 - jyd))) * 8))) + (Int.tdiv (← (GoSem.chk64 (jym2 + 3))) 4)))) - (Int.tdiv (← (GoSem.chk64 (jym + 3))) 4))))))

/-- cal_types/jalali/jalali.go:163 -/
def jalali_getMonthDayFromYdays_chk (yday : Int) : Option (Int × Int) := do
  let month := (GoSem.u8 (← (utils_BisectLeft_chk jalali_monthLenSum yday)))
  let day := (GoSem.u8 (← (GoSem.chk64 (yday - (← (GoSem.idx jalali_monthLenSum (GoSem.u8 (month - 1))))))))
  pure (month, day)

/-- cal_types/jalali/jalali.go:133 -/
def jalali_ToJd_chk (alg2820 : Bool) (date : GoSem.Date) : Option Int := do
  if alg2820 then
    let epbase ← (GoSem.chk64 ((date).Year - 474))
    let (epbase_d, epbase_m) ← (utils_Divmod_chk epbase 2820)
    let epyear ← (GoSem.chk64 (474 + epbase_m))
    let mm := (GoSem.u8 ((date).Month - 1))
    (GoSem.chk64 ((← (GoSem.chk64 ((← (GoSem.chk64 ((← (GoSem.chk64 ((← (GoSem.chk64 ((← (GoSem.chk64 ((← (GoSem.chk64 ((date).Day + (← (GoSem.chk64 (mm * 30)))))) + (← (utils_IntMin_chk 6 mm))))) + (← (utils_Div_chk (← (GoSem.chk64 ((← (GoSem.chk64 (epyear * 682))) - 110))) 2816))))) + (← (GoSem.chk64 ((← (GoSem.chk64 (epyear - 1))) * 365)))))) + (← (GoSem.chk64 (epbase_d * 1029983)))))) + 1948321))) - 1))
  else
    let jy ← (GoSem.chk64 ((date).Year - 979))
    let (jyd, jym) ← (utils_Divmod_chk jy 33)
    (GoSem.chk64 ((← (GoSem.chk64 ((← (GoSem.chk64 ((← (GoSem.chk64 ((← (GoSem.chk64 ((← (GoSem.chk64 ((← (GoSem.chk64 ((← (GoSem.chk64 (365 * jy))) + (← (GoSem.chk64 (jyd * 8)))))) + (← (utils_Div_chk (← (GoSem.chk64 (jym + 3))) 4))))) + (← (GoSem.idx jalali_monthLenSum (GoSem.u8 ((date).Month - 1))))))) + (date).Day))) - 1))) + 584101))) + 1721426))

/-- cal_types/jalali/jalali.go:170 -/
def jalali_JdTo_chk (alg2820 : Bool) (jd : Int) : Option GoSem.Date := do
  if alg2820 then
    let deltaDays ← (GoSem.chk64 (jd - (← (jalali_ToJd_chk alg2820 (← (SrcExt.lib_NewDate 475 1 1))))))
    let (cycle, cyear) ← (utils_Divmod_chk deltaDays 1029983)
    let ycycle := (0 : Int)
    let ycycle ← (do
      if (decide (cyear = 1029982)) then
        let ycycle := (2820 : Int)
        pure ycycle
      else
        let (aux1, aux2) ← (utils_Divmod_chk cyear 366)
        let ycycle ← (GoSem.chk64 ((← (GoSem.chk64 ((← (utils_Div_chk (← (GoSem.chk64 ((← (GoSem.chk64 ((← (GoSem.chk64 (2134 * aux1))) + (← (GoSem.chk64 (2816 * aux2)))))) + 2815))) 1028522)) + (Int.tdiv cyear 366)))) + 1))
        pure ycycle
      )
    let year ← (GoSem.chk64 ((← (GoSem.chk64 ((← (GoSem.chk64 (2820 * cycle))) + ycycle))) + 474))
    let yday ← (GoSem.chk64 ((← (GoSem.chk64 (jd - (← (jalali_ToJd_chk alg2820 (← (SrcExt.lib_NewDate year 1 1))))))) + 1))
    let (month, day) ← (jalali_getMonthDayFromYdays_chk yday)
    (SrcExt.lib_NewDate year month day)
  else
    let jdays ← (GoSem.chk64 ((← (GoSem.chk64 (jd - 1721426))) - 584101))
    let (j_np, jdays) ← (utils_Divmod_chk jdays 12053)
    let (yearFact, jdays) ← (utils_Divmod_chk jdays 1461)
    let year_1 ← (GoSem.chk64 ((← (GoSem.chk64 (979 + (← (GoSem.chk64 (33 * j_np)))))) + (← (GoSem.chk64 (4 * yearFact)))))
    let (jdays, year_1) ← (do
      if (decide (jdays ≥ 366)) then
        let yearPlus := (0 : Int)
        let (yearPlus, jdays) ← (utils_Divmod_chk (← (GoSem.chk64 (jdays - 1))) 365)
        let year_1 ← (GoSem.chk64 (year_1 + yearPlus))
        pure (jdays, year_1)
      else
        pure (jdays, year_1)
      )
    let yday_1 ← (GoSem.chk64 (jdays + 1))
    let (month_1, day_1) ← (jalali_getMonthDayFromYdays_chk yday_1)
    (SrcExt.lib_NewDate year_1 month_1 day_1)

/-- cal_types/jalali/jalali.go:210 -/
def jalali_GetMonthLen_chk (alg2820 : Bool) (year : Int) (month : Int) : Option Int := do
  if (decide (month = 12)) then
    let _c1 ← (jalali_IsLeap_chk alg2820 year)
    if _c1 then
      pure 30
    else
      pure 29
  else
    (GoSem.idx jalali_monthLen (GoSem.u8 (month - 1)))

/-- cal_types/ethiopian/ethiopian.go:104 -/
def ethiopian_IsLeap_chk (year : Int) : Option Bool := do
  pure (decide ((Int.tmod (← (GoSem.chk64 (year + 1))) 4) = 0))

/-- cal_types/ethiopian/ethiopian.go:108 -/
def ethiopian_ToJd_chk (date : GoSem.Date) : Option Int := do
  (GoSem.chk64 ((← (GoSem.chk64 ((← (GoSem.chk64 ((← (GoSem.chk64 ((← (GoSem.chk64 (1724235 + (← (GoSem.chk64 (365 * (← (GoSem.chk64 ((date).Year - 1))))))))) + (← (utils_Div_chk (date).Year 4))))) + (← (GoSem.chk64 ((GoSem.u8 ((date).Month - 1)) * 30)))))) + (date).Day))) - 15))

/-- cal_types/ethiopian/ethiopian.go:115 -/
def ethiopian_JdTo_chk (jd : Int) : Option GoSem.Date := do
  let (quad, dquad) ← (utils_Divmod_chk (← (GoSem.chk64 (jd - 1724235))) 1461)
  let yindex ← (utils_IntMin_chk 3 (Int.tdiv dquad 365))
  let year ← (GoSem.chk64 ((← (GoSem.chk64 ((← (GoSem.chk64 (quad * 4))) + yindex))) + 1))
  let yearday ← (GoSem.chk64 (jd - (← (ethiopian_ToJd_chk (← (SrcExt.lib_NewDate year 1 1))))))
  let month ← (GoSem.chk64 ((Int.tdiv yearday 30) + 1))
  let day ← (GoSem.chk64 ((Int.tmod yearday 30) + 1))
  let (month, day) ← (do
    if (decide (month = 13)) then
      let month ← (GoSem.chk64 (month - 1))
      let day ← (GoSem.chk64 (day + 30))
      pure (month, day)
    else
      pure (month, day)
    )
  let (year, month, day) ← (do
    if (decide (month = 12)) then
      let mLen := (35 : Int)
      let _c1 ← (ethiopian_IsLeap_chk year)
      let mLen ← (do
        if _c1 then
          let mLen ← (GoSem.chk64 (mLen + 1))
          pure mLen
        else
          pure mLen
        )
      if (decide (day > mLen)) then
        let year ← (GoSem.chk64 (year + 1))
        let month := (1 : Int)
        let day ← (GoSem.chk64 (day - mLen))
        pure (year, month, day)
      else
        pure (year, month, day)
    else
      pure (year, month, day)
    )
  (SrcExt.lib_NewDate year (GoSem.u8 month) (GoSem.u8 day))

/-- cal_types/ethiopian/ethiopian.go:142 -/
def ethiopian_GetMonthLen_chk (year : Int) (month : Int) : Option Int := do
  if (decide (month = 12)) then
    let _c1 ← (ethiopian_IsLeap_chk year)
    if _c1 then
      pure 36
    else
      pure 35
  else
    (GoSem.idx ethiopian_monthLens (GoSem.u8 (month - 1)))

/-- cal_types/gregorian_proleptic/gregorian_proleptic.go:112 -/
def gprol_IsLeap_chk (year : Int) : Option Bool := do
  let year ← (do
    if (decide (year < 1)) then
      let year ← (GoSem.chk64 (year + 1))
      pure year
    else
      pure year
    )
  pure ((decide ((Int.tmod year 4) = 0)) && ((decide ((Int.tmod year 100) ≠ 0)) || (decide ((Int.tmod year 400) = 0))))

/-- cal_types/gregorian_proleptic/gregorian_proleptic.go:119 -/
def gprol_ToJd_chk (date : GoSem.Date) : Option Int := do
  let a := (0 : Int)
  let a ← (do
    if (decide ((date).Month < 3)) then
      let a := (1 : Int)
      pure a
    else
      pure a
    )
  let y ← (GoSem.chk64 ((← (GoSem.chk64 ((date).Year + 4800))) - a))
  let y ← (do
    if (decide ((date).Year < 1)) then
      let y ← (GoSem.chk64 (y + 1))
      pure y
    else
      pure y
    )
  let m ← (GoSem.chk64 ((← (GoSem.chk64 ((date).Month + (← (GoSem.chk64 (12 * a)))))) - 3))
  (GoSem.chk64 ((← (GoSem.chk64 ((← (GoSem.chk64 ((← (GoSem.chk64 ((← (GoSem.chk64 ((← (GoSem.chk64 ((← (GoSem.chk64 (365 * y))) + (← (utils_Div_chk y 4))))) - (← (utils_Div_chk y 100))))) + (← (utils_Div_chk y 400))))) - 32045))) + (← (utils_Div_chk (← (GoSem.chk64 ((← (GoSem.chk64 (153 * m))) + 2))) 5))))) + (date).Day))

/-- cal_types/gregorian_proleptic/gregorian_proleptic.go:147 -/
def gprol_JdTo_chk (jd : Int) : Option GoSem.Date := do
  let a ← (GoSem.chk64 (jd + 32044))
  let b ← (utils_Div_chk (← (GoSem.chk64 ((← (GoSem.chk64 (4 * a))) + 3))) 146097)
  let c ← (GoSem.chk64 (a - (← (utils_Div_chk (← (GoSem.chk64 (146097 * b))) 4))))
  let d ← (utils_Div_chk (← (GoSem.chk64 ((← (GoSem.chk64 (4 * c))) + 3))) 1461)
  let e ← (GoSem.chk64 (c - (← (utils_Div_chk (← (GoSem.chk64 (1461 * d))) 4))))
  let m ← (utils_Div_chk (← (GoSem.chk64 ((← (GoSem.chk64 (5 * e))) + 2))) 153)
  let day := (GoSem.u8 (← (GoSem.chk64 ((← (GoSem.chk64 (e - (← (utils_Div_chk (← (GoSem.chk64 ((← (GoSem.chk64 (153 * m))) + 2))) 5))))) + 1))))
  let month := (GoSem.u8 (← (GoSem.chk64 ((← (GoSem.chk64 (m + 3))) - (← (GoSem.chk64 (12 * (← (utils_Div_chk m 10)))))))))
  let year ← (GoSem.chk64 ((← (GoSem.chk64 ((← (GoSem.chk64 ((← (GoSem.chk64 (100 * b))) + d))) - 4800))) + (← (utils_Div_chk m 10))))
  let year ← (do
    if (decide (year < 1)) then
      let year ← (GoSem.chk64 (year - 1))
      pure year
    else
      pure year
    )
  (SrcExt.lib_NewDate year month day)

/-- cal_types/gregorian_proleptic/gregorian_proleptic.go:172 -/
def gprol_GetMonthLen_chk (year : Int) (month : Int) : Option Int := do
  if (decide (month = 2)) then
    let _c1 ← (gprol_IsLeap_chk year)
    if _c1 then
      pure 29
    else
      pure 28
  else
    (GoSem.idx gprol_monthLen (GoSem.u8 (month - 1)))

/-- cal_types/indian_national/indian_national.go:94 -/
def indian_IsLeap_chk (year : Int) : Option Bool := do
  (SrcExt.gregorian_IsLeap (← (GoSem.chk64 (year + 78))))

/-- cal_types/indian_national/indian_national.go:98 -/
def indian_ToJd_chk (date : GoSem.Date) : Option Int := do
  let jdFirstDayOfYear := (0 : Int)
  let daysInMonth1 := (0 : Int)
  let _c1 ← (indian_IsLeap_chk (date).Year)
  let (jdFirstDayOfYear, daysInMonth1) ← (do
    if _c1 then
      let jdFirstDayOfYear ← (SrcExt.gregorian_ToJd (← (SrcExt.lib_NewDate (← (GoSem.chk64 ((date).Year + 78))) 3 21)))
      let daysInMonth1 := (31 : Int)
      pure (jdFirstDayOfYear, daysInMonth1)
    else
      let jdFirstDayOfYear ← (SrcExt.gregorian_ToJd (← (SrcExt.lib_NewDate (← (GoSem.chk64 ((date).Year + 78))) 3 22)))
      let daysInMonth1 := (30 : Int)
      pure (jdFirstDayOfYear, daysInMonth1)
    )
  let jd := (0 : Int)
  let jd ← (do
    if (decide ((date).Month = 1)) then
      let jd ← (GoSem.chk64 ((← (GoSem.chk64 (jdFirstDayOfYear + (date).Day))) - 1))
      pure jd
    else
      if (decide ((date).Month ≤ 6)) then
        let jd ← (GoSem.chk64 ((← (GoSem.chk64 ((← (GoSem.chk64 ((← (GoSem.chk64 (jdFirstDayOfYear + daysInMonth1))) + (← (GoSem.chk64 ((← (GoSem.chk64 ((date).Month - 2))) * 31)))))) + (date).Day))) - 1))
        pure jd
      else
        let jd ← (GoSem.chk64 ((← (GoSem.chk64 ((← (GoSem.chk64 ((← (GoSem.chk64 ((← (GoSem.chk64 (jdFirstDayOfYear + daysInMonth1))) + 155))) + (← (GoSem.chk64 ((← (GoSem.chk64 ((date).Month - 7))) * 30)))))) + (date).Day))) - 1))
        pure jd
    )
  pure jd

/-- cal_types/indian_national/indian_national.go:136 -/
def indian_JdTo_chk (jd : Int) : Option GoSem.Date := do
  let year := (0 : Int)
  let month := (0 : Int)
  let day := (0 : Int)
  let gDate ← (SrcExt.gregorian_JdTo jd)
  let jdGregorianFirstDayOfYear ← (SrcExt.gregorian_ToJd (← (SrcExt.lib_NewDate (gDate).Year 1 1)))
  let gregorianDayOfYear ← (GoSem.chk64 ((← (GoSem.chk64 (jd - jdGregorianFirstDayOfYear))) + 1))
  let year ← (do
    if (decide (gregorianDayOfYear > 80)) then
      let year ← (GoSem.chk64 ((gDate).Year - 78))
      pure year
    else
      let year ← (GoSem.chk64 ((gDate).Year - 79))
      pure year
    )
  let daysInMonth1 := (0 : Int)
  let _c1 ← (indian_IsLeap_chk year)
  let daysInMonth1 ← (do
    if _c1 then
      let daysInMonth1 := (31 : Int)
      pure daysInMonth1
    else
      let daysInMonth1 := (30 : Int)
      pure daysInMonth1
    )
  let indianDayOfYear := (0 : Int)
  let indianDayOfYear ← (do
    if (decide (gregorianDayOfYear > 80)) then
      let indianDayOfYear ← (GoSem.chk64 (gregorianDayOfYear - 80))
      pure indianDayOfYear
    else
      let indianDayOfYear ← (GoSem.chk64 ((← (GoSem.chk64 ((← (GoSem.chk64 ((← (GoSem.chk64 (gregorianDayOfYear + daysInMonth1))) + 155))) + 180))) - 80))
      pure indianDayOfYear
    )
  let (month, day) ← (do
    if (decide (indianDayOfYear ≤ daysInMonth1)) then
      let month := (1 : Int)
      let day := indianDayOfYear
      pure (month, day)
    else
      if (decide (indianDayOfYear ≤ (← (GoSem.chk64 (daysInMonth1 + 155))))) then
        let month ← (GoSem.chk64 ((Int.tdiv (← (GoSem.chk64 ((← (GoSem.chk64 (indianDayOfYear - daysInMonth1))) - 1))) 31) + 2))
        let day ← (GoSem.chk64 ((← (GoSem.chk64 (indianDayOfYear - daysInMonth1))) - (← (GoSem.chk64 ((← (GoSem.chk64 (month - 2))) * 31)))))
        pure (month, day)
      else
        let month ← (GoSem.chk64 ((Int.tdiv (← (GoSem.chk64 ((← (GoSem.chk64 ((← (GoSem.chk64 (indianDayOfYear - daysInMonth1))) - 155))) - 1))) 30) + 7))
        let day ← (GoSem.chk64 ((← (GoSem.chk64 ((← (GoSem.chk64 (indianDayOfYear - daysInMonth1))) - 155))) - (← (GoSem.chk64 ((← (GoSem.chk64 (month - 7))) * 30)))))
        pure (month, day)
    )
  (SrcExt.lib_NewDate year (GoSem.u8 month) (GoSem.u8 day))

/-- cal_types/indian_national/indian_national.go:188 -/
def indian_GetMonthLen_chk (year : Int) (month : Int) : Option Int := do
  if (decide (month = 1)) then
    let _c1 ← (indian_IsLeap_chk year)
    if _c1 then
      pure 31
    else
      pure 30
  else
    if ((decide (2 ≤ month)) && (decide (month ≤ 6))) then
      pure 31
    else
      pure 30

/-- cal_types/hijri/hijri.go:244 -/
def hijri_IsLeap_chk (year : Int) : Option Bool := do
  pure (decide ((← (utils_Mod_chk (← (GoSem.chk64 ((← (GoSem.chk64 (year * 11))) + 14))) 30)) < 11))

/-- cal_types/hijri/hijri.go:248 -/
def hijri_ToJd_chk (date : GoSem.Date) : Option Int := do
  (GoSem.chk64 ((← (GoSem.chk64 ((← (GoSem.chk64 ((← (GoSem.chk64 ((date).Day + (GoSem.ftoi ((Rat.ceil (((59 : Rat) / 2) * (((GoSem.u8 ((date).Month - 1)) : Int) : Rat)) : Int) : Rat))))) + (← (GoSem.chk64 ((← (GoSem.chk64 ((date).Year - 1))) * 354)))))) + (← (utils_Div_chk (← (GoSem.chk64 ((← (GoSem.chk64 (11 * (date).Year))) + 3))) 30))))) + 1948440))

/-- cal_types/hijri/hijri.go:262 -/
def hijri_JdTo_chk (jd : Int) : Option GoSem.Date := do
  let year ← (utils_Div_chk (← (GoSem.chk64 ((← (GoSem.chk64 (30 * (← (GoSem.chk64 ((← (GoSem.chk64 (jd - 1))) - 1948440)))))) + 10646))) 10631)
  let month := (GoSem.u8 (← (utils_IntMin_chk 12 (GoSem.ftoi ((Rat.ceil (((((jd : Int) : Rat) + ((1 : Rat) / 2)) - (((← (hijri_ToJd_chk (← (SrcExt.lib_NewDate year 1 1)))) : Int) : Rat)) / ((59 : Rat) / 2)) : Int) : Rat)))))
  let day := (GoSem.u8 (← (GoSem.chk64 ((← (GoSem.chk64 (jd - (← (hijri_ToJd_chk (← (SrcExt.lib_NewDate year month 1))))))) + 1))))
  (SrcExt.lib_NewDate year month day)

/-- cal_types/hijri/hijri.go:281 -/
def hijri_GetMonthLen_chk (year : Int) (month : Int) : Option Int := do
  if (decide ((Int.tmod month 2) = 1)) then
    pure 30
  else
    let _c1 ← (do if (decide (month = 12)) then (hijri_IsLeap_chk year) else pure false)
    if _c1 then
      pure 30
    else
      pure 29

/-- cal_types/hijri/hijri.go:133 -/
def hijri_MonthData_GetDateFromJd_chk (mdata : hijri_MonthData) (jd : Int) : Option (Option GoSem.Date) := do
  if (!((decide ((mdata).EndJd ≥ jd)) && (decide (jd ≥ (mdata).StartJd)))) then
    pure none
  else
    let y ← (GoSem.idx (mdata).StartDate 0)
    let m ← (GoSem.idx (mdata).StartDate 1)
    let d ← (GoSem.idx (mdata).StartDate 2)
    let ym ← (GoSem.chk64 ((← (GoSem.chk64 ((← (GoSem.chk64 (y * 12))) + m))) - 1))
    let startJd := (mdata).StartJd
    let _r1 ← GoSem.whileB (ρ := (Option GoSem.Date)) GoSem.fuel
      (fun (jd, d, ym) => do pure (decide (jd > startJd)))
      (fun (jd, d, ym) => do
        let monthLen := (GoSem.mapGet (mdata).MonthLenByYm ym)
        let jdm0 ← (GoSem.chk64 (jd - monthLen))
        if (decide (jdm0 ≤ (← (GoSem.chk64 (startJd - d))))) then
          let d ← (GoSem.chk64 ((← (GoSem.chk64 (d + jd))) - startJd))
          pure (GoSem.Flow.ret (Sum.inr (jd, d, ym)))
        else
          if ((decide ((← (GoSem.chk64 (startJd - d))) < jdm0)) && (decide (jdm0 ≤ startJd))) then
            let ym ← (GoSem.chk64 (ym + 1))
            let d ← (GoSem.chk64 ((← (GoSem.chk64 ((← (GoSem.chk64 (d + jd))) - startJd))) - monthLen))
            pure (GoSem.Flow.ret (Sum.inr (jd, d, ym)))
          else
            let ym ← (GoSem.chk64 (ym + 1))
            let jd ← (GoSem.chk64 (jd - monthLen))
            pure (GoSem.Flow.next (jd, d, ym))
      )
      (jd, d, ym)
    match _r1 with
    | GoSem.Flow.ret _v => pure _v
    | GoSem.Flow.next (jd, d, ym) =>
      let (year, mm) ← (utils_Divmod_chk ym 12)
      pure (some (← (SrcExt.lib_NewDate year (GoSem.u8 (← (GoSem.chk64 (mm + 1)))) (GoSem.u8 d))))

/-- cal_types/hijri/hijri.go:169 -/
def hijri_MonthData_GetJdFromDate_chk (mdata : hijri_MonthData) (date : GoSem.Date) : Option (Int × Bool) := do
  let year := (date).Year
  let ym ← (GoSem.chk64 ((← (GoSem.chk64 ((← (GoSem.chk64 (year * 12))) + (date).Month))) - 1))
  let (_u1, ok) := GoSem.mapGet2 (mdata).MonthLenByYm (← (GoSem.chk64 (ym - 1)))
  if (!ok) then
    pure (0, false)
  else
    let ym0 ← (GoSem.chk64 ((← (GoSem.chk64 ((← (GoSem.chk64 ((← (GoSem.idx (mdata).StartDate 0)) * 12))) + (← (GoSem.idx (mdata).StartDate 1))))) - 1))
    let jd := (mdata).StartJd
    let _r2 ← GoSem.forCount (ρ := Empty) (fun jd ymi => do
        let (plus, ok_1) := GoSem.mapGet2 (mdata).MonthLenByYm ymi
        if (!ok_1) then
          none
        else
          let jd ← (GoSem.chk64 (jd + plus))
          pure (GoSem.Flow.next jd)
      ) ym0 ym jd
    match _r2 with
    | GoSem.Flow.ret _v => nomatch _v
    | GoSem.Flow.next jd =>
      pure ((← (GoSem.chk64 ((← (GoSem.chk64 (jd + (date).Day))) - 1))), true)

/-- cal_types/hijri/hijri.go:244 -/
def hijriT_IsLeap_chk (year : Int) : Option Bool := do
  pure (decide ((← (utils_Mod_chk (← (GoSem.chk64 ((← (GoSem.chk64 (year * 11))) + 14))) 30)) < 11))

/-- cal_types/hijri/hijri.go:169 -/
def hijriT_MonthData_GetJdFromDate_chk (mdata : hijri_MonthData) (date : GoSem.Date) : Option (Int × Bool) := do
  let year := (date).Year
  let ym ← (GoSem.chk64 ((← (GoSem.chk64 ((← (GoSem.chk64 (year * 12))) + (date).Month))) - 1))
  let (_u1, ok) := GoSem.mapGet2 (mdata).MonthLenByYm (← (GoSem.chk64 (ym - 1)))
  if (!ok) then
    pure (0, false)
  else
    let ym0 ← (GoSem.chk64 ((← (GoSem.chk64 ((← (GoSem.chk64 ((← (GoSem.idx (mdata).StartDate 0)) * 12))) + (← (GoSem.idx (mdata).StartDate 1))))) - 1))
    let jd := (mdata).StartJd
    let _r2 ← GoSem.forCount (ρ := Empty) (fun jd ymi => do
        let (plus, ok_1) := GoSem.mapGet2 (mdata).MonthLenByYm ymi
        if (!ok_1) then
          none
        else
          let jd ← (GoSem.chk64 (jd + plus))
          pure (GoSem.Flow.next jd)
      ) ym0 ym jd
    match _r2 with
    | GoSem.Flow.ret _v => nomatch _v
    | GoSem.Flow.next jd =>
      pure ((← (GoSem.chk64 ((← (GoSem.chk64 (jd + (date).Day))) - 1))), true)

/-- cal_types/hijri/hijri.go:133 -/
def hijriT_MonthData_GetDateFromJd_chk (mdata : hijri_MonthData) (jd : Int) : Option (Option GoSem.Date) := do
  if (!((decide ((mdata).EndJd ≥ jd)) && (decide (jd ≥ (mdata).StartJd)))) then
    pure none
  else
    let y ← (GoSem.idx (mdata).StartDate 0)
    let m ← (GoSem.idx (mdata).StartDate 1)
    let d ← (GoSem.idx (mdata).StartDate 2)
    let ym ← (GoSem.chk64 ((← (GoSem.chk64 ((← (GoSem.chk64 (y * 12))) + m))) - 1))
    let startJd := (mdata).StartJd
    let _r1 ← GoSem.whileB (ρ := (Option GoSem.Date)) GoSem.fuel
      (fun (jd, d, ym) => do pure (decide (jd > startJd)))
      (fun (jd, d, ym) => do
        let monthLen := (GoSem.mapGet (mdata).MonthLenByYm ym)
        let jdm0 ← (GoSem.chk64 (jd - monthLen))
        if (decide (jdm0 ≤ (← (GoSem.chk64 (startJd - d))))) then
          let d ← (GoSem.chk64 ((← (GoSem.chk64 (d + jd))) - startJd))
          pure (GoSem.Flow.ret (Sum.inr (jd, d, ym)))
        else
          if ((decide ((← (GoSem.chk64 (startJd - d))) < jdm0)) && (decide (jdm0 ≤ startJd))) then
            let ym ← (GoSem.chk64 (ym + 1))
            let d ← (GoSem.chk64 ((← (GoSem.chk64 ((← (GoSem.chk64 (d + jd))) - startJd))) - monthLen))
            pure (GoSem.Flow.ret (Sum.inr (jd, d, ym)))
          else
            let ym ← (GoSem.chk64 (ym + 1))
            let jd ← (GoSem.chk64 (jd - monthLen))
            pure (GoSem.Flow.next (jd, d, ym))
      )
      (jd, d, ym)
    match _r1 with
    | GoSem.Flow.ret _v => pure _v
    | GoSem.Flow.next (jd, d, ym) =>
      let (year, mm) ← (utils_Divmod_chk ym 12)
      pure (some (← (SrcExt.lib_NewDate year (GoSem.u8 (← (GoSem.chk64 (mm + 1)))) (GoSem.u8 d))))

/-- cal_types/hijri/hijri.go:248 -/
def hijriT_ToJd_chk (monthData : hijri_MonthData) (date : GoSem.Date) : Option Int := do
  let (jd, ok) ← (hijriT_MonthData_GetJdFromDate_chk monthData date)
  if ok then
    pure jd
  else
    (GoSem.chk64 ((← (GoSem.chk64 ((← (GoSem.chk64 ((← (GoSem.chk64 ((date).Day + (GoSem.ftoi ((Rat.ceil (((59 : Rat) / 2) * (((GoSem.u8 ((date).Month - 1)) : Int) : Rat)) : Int) : Rat))))) + (← (GoSem.chk64 ((← (GoSem.chk64 ((date).Year - 1))) * 354)))))) + (← (utils_Div_chk (← (GoSem.chk64 ((← (GoSem.chk64 (11 * (date).Year))) + 3))) 30))))) + 1948440))

/-- cal_types/hijri/hijri.go:262 -/
def hijriT_JdTo_chk (monthData : hijri_MonthData) (jd : Int) : Option GoSem.Date := do
  let date ← (hijriT_MonthData_GetDateFromJd_chk monthData jd)
  if (date).isSome then
    date
  else
    let year ← (utils_Div_chk (← (GoSem.chk64 ((← (GoSem.chk64 (30 * (← (GoSem.chk64 ((← (GoSem.chk64 (jd - 1))) - 1948440)))))) + 10646))) 10631)
    let month := (GoSem.u8 (← (utils_IntMin_chk 12 (GoSem.ftoi ((Rat.ceil (((((jd : Int) : Rat) + ((1 : Rat) / 2)) - (((← (hijriT_ToJd_chk monthData (← (SrcExt.lib_NewDate year 1 1)))) : Int) : Rat)) / ((59 : Rat) / 2)) : Int) : Rat)))))
    let day := (GoSem.u8 (← (GoSem.chk64 ((← (GoSem.chk64 (jd - (← (hijriT_ToJd_chk monthData (← (SrcExt.lib_NewDate year month 1))))))) + 1))))
    (SrcExt.lib_NewDate year month day)

/-- cal_types/hijri/hijri.go:281 -/
def hijriT_GetMonthLen_chk (monthData : hijri_MonthData) (year : Int) (month : Int) : Option Int := do
  if (decide (month = 12)) then
    pure (GoSem.u8 (← (GoSem.chk64 ((← (hijriT_ToJd_chk monthData (← (SrcExt.lib_NewDate (← (GoSem.chk64 (year + 1))) 1 1)))) - (← (hijriT_ToJd_chk monthData (← (SrcExt.lib_NewDate year 12 1))))))))
  else
    pure (GoSem.u8 (← (GoSem.chk64 ((← (hijriT_ToJd_chk monthData (← (SrcExt.lib_NewDate year (GoSem.u8 (month + 1)) 1)))) - (← (hijriT_ToJd_chk monthData (← (SrcExt.lib_NewDate year month 1))))))))

/-- the functions translated on this run -/
def translated : List String := ["utils_Mod", "utils_Div", "utils_Divmod", "utils_IntMin", "utils_GetHmsBySeconds", "utils_MonthListIsValid", "utils_DayListIsValid", "utils_WeekDayListIsValid", "utils_bisectLeftRange", "utils_BisectLeft", "lib_GetTotalSeconds", "lib_GetFloatHour", "lib_FloatHourToHMS", "lib_toUint8", "lib_HMS_IsValid", "lib_Date_IsValid", "lib_DHMS_IsValid", "lib_HMSRange_IsValid", "lib_DateHMS_IsValid", "interval_Less", "interval_GetPointList", "interval_GetIntervalList", "interval_Normalize", "interval_Humanize", "interval_Extract", "interval_IntervalListByNumList", "interval_intersectionOfSomeIntervalLists_endPoint", "interval_IntersectionOfSomeIntervalLists", "interval_Intersection", "stack_Push", "stack_Pop", "rules_WeekMonth_IsValid", "julian_IsLeap", "julian_getYearDays", "julian_getMonthDayFromYdays", "julian_ToJd", "julian_JdTo", "julian_GetMonthLen", "jalali_IsLeap", "jalali_getMonthDayFromYdays", "jalali_ToJd", "jalali_JdTo", "jalali_GetMonthLen", "ethiopian_IsLeap", "ethiopian_ToJd", "ethiopian_JdTo", "ethiopian_GetMonthLen", "gprol_IsLeap", "gprol_ToJd", "gprol_JdTo", "gprol_GetMonthLen", "indian_IsLeap", "indian_ToJd", "indian_JdTo", "indian_GetMonthLen", "hijri_IsLeap", "hijri_ToJd", "hijri_JdTo", "hijri_GetMonthLen", "hijri_MonthData_GetDateFromJd", "hijri_MonthData_GetJdFromDate", "hijriT_IsLeap", "hijriT_MonthData_GetJdFromDate", "hijriT_MonthData_GetDateFromJd", "hijriT_ToJd", "hijriT_JdTo", "hijriT_GetMonthLen"]

end Starcal.Gen.Src
