import Starcal.TextMore
import Starcal.WeekMonth
import Starcal.Ranges
import Starcal.Gen.Rules
/-! Event rule decoding and checking (event/rules_lib): `EventRuleModel.Decode` and
    `EventRule.Check` over the regenerated registry `Gen.ruleTypes`. -/
namespace Starcal.Rules

/-- decoded rule values, one constructor per Go value type a decoder returns -/
inductive Val where
  | str (s : List Char)
  | int (n : Int)
  | intList (l : List Int)
  | hms (x : HMS)
  | dhms (days : Int) (x : HMS)
  | hmsRange (a b : HMS)
  | date (d : DateV)
  | dateList (l : List DateV)
  | dateHMS (d : DateV) (x : HMS)
  | duration (x : DurationV)
  | weekMonth (wi wd m : Int)
deriving Repr, DecidableEq

/-- the Go type a value has (as `go/types` prints it), for the decoder/checker agreement -/
def Val.goType : Val → String
  | .str _ => "string"
  | .int _ => "int"
  | .intList _ => "[]int"
  | .hms _ => "*libscal.HMS"
  | .dhms _ _ => "*libscal.DHMS"
  | .hmsRange _ _ => "*libscal.HMSRange"
  | .date _ => "*libscal.Date"
  | .dateList _ => "[]*libscal.Date"
  | .dateHMS _ _ => "*libscal.DateHMS"
  | .duration _ => "utils.Duration"
  | .weekMonth _ _ _ => "rules_lib.WeekMonth"

inductive Res where
  | ok (v : Val)
  | err
  | panic
  | unmodelled
deriving Repr, DecidableEq

def ofOpt (f : α → Val) : Option α → Res
  | some a => .ok (f a)
  | none => .err

def toIv (i : Starcal.Ival) : Ival.Interval := ⟨i.start, i.stop, i.closed⟩

/-- the `int_range_list` decoder: ParseClosedIntervalList, Normalize, Extract -/
def decodeRanges (s : List Char) : Res :=
  match parseClosedIntervalList s with
  | .ok l =>
    match Ival.normalize (l.map toIv) with
    | some r => .ok (.intList (Ival.extractI r))
    | none => .err
  | .err => .err
  | .panic => .panic

/-- the value decoders by name (decoders.go, 18_weekMonth.go); `float` and the parts of
    `Duration` / `WeekMonth` outside the modelled grammar are `unmodelled` -/
def decodeWith (decoder : String) (s : List Char) : Res :=
  match decoder with
  | "string" => .ok (.str s)
  | "int" => ofOpt .int (parseInt s)
  | "int_list" => ofOpt .intList (parseIntList s)
  | "int_range_list" => decodeRanges s
  | "HMS" => ofOpt .hms (parseHMS narrowNew s)
  | "DHMS" => ofOpt (fun p => .dhms p.1 p.2) (parseDHMS true s)
  | "HMSRange" => ofOpt (fun p => .hmsRange p.1 p.2) (parseHMSRange s)
  | "Date" => ofOpt .date (parseDate narrowNew s)
  | "Date_list" => ofOpt .dateList (parseDateList s)
  | "DateHMS" => ofOpt (fun p => .dateHMS p.1 p.2) (parseDateHMS s)
  | "Duration" => ofOpt .duration (parseDuration s)
  | "WeekMonth" =>
    match WM.parse s with
    | .ok a b c => .ok (.weekMonth a b c)
    | .err => .err
    | .unmodelled => .unmodelled
  | _ => .unmodelled

def ruleOf (typeName : String) : Option Gen.RuleType := Gen.ruleTypes.find? (fun r => r.name == typeName)

/-- EventRuleModel.Decode: unknown type name is an error -/
def decode (typeName : String) (s : List Char) : Res :=
  match ruleOf typeName with
  | some r => decodeWith r.decoder s
  | none => .err

inductive Chk where
  | ok (b : Bool)
  | panic
deriving Repr, DecidableEq

/-- the value checkers by rule type (one per file 00_start.go … 18_weekMonth.go): a failed type
    assertion panics -/
def checkWith (typeName : String) (v : Val) : Chk :=
  match typeName, v with
  | "start", .dateHMS d x => .ok (d.isValid && x.isValid)
  | "end", .dateHMS d x => .ok (d.isValid && x.isValid)
  | "duration", .duration x => .ok x.isValid
  | "date", .date d => .ok d.isValid
  | "ex_dates", .dateList l => .ok (l.all DateV.isValid)
  | "dayTime", .hms x => .ok x.isValid
  | "dayTimeRange", .hmsRange a b => .ok (a.isValid && b.isValid)
  | "cycleLen", .dhms _ x => .ok x.isValid
  | "cycleDays", .int n => .ok (decide (n > 0))
  | "cycleWeeks", .int n => .ok (decide (n > 0))
  | "weekDay", .intList l => .ok (l.all (fun v => decide (v ≥ 0) && decide (v < 7)))
  | "month", .intList l => .ok (l.all (fun v => decide (v > 0) && decide (v < 13)))
  | "ex_month", .intList l => .ok (l.all (fun v => decide (v > 0) && decide (v < 13)))
  | "day", .intList l => .ok (l.all (fun v => decide (v > 0) && decide (v < 40)))
  | "ex_day", .intList l => .ok (l.all (fun v => decide (v > 0) && decide (v < 40)))
  | "weekNumMode", .str s => .ok (s == "odd".toList || s == "even".toList || s == "any".toList)
  | "weekMonth", .weekMonth a b c => .ok (WM.isValid a b c)
  | _, _ => .panic

/-- EventRule.Check: no checker registered means `true` -/
def check (typeName : String) (v : Val) : Chk :=
  match ruleOf typeName with
  | some r => if r.hasChecker then checkWith typeName v else .ok true
  | none => .panic

end Starcal.Rules
