import Starcal.Canon
/-! Starcal: IntervalList.Humanize keeps the set and leaves only half-open intervals and single points. -/
namespace Starcal.Ival

def humanize : List Interval → List Interval
  | [] => []
  | i :: l =>
    if i.closed = true ∧ i.stop > i.start then
      ⟨i.start, i.stop, false⟩ :: ⟨i.stop, i.stop, true⟩ :: humanize l
    else i :: humanize l

theorem humanize_mem (l : List Interval) (h : Int) : memL h (humanize l) ↔ memL h l := by
  induction l with
  | nil => simp [humanize]
  | cons i l ih =>
    unfold humanize
    unfold memL at *
    split
    · rename_i hc
      constructor
      · rintro ⟨k, hk, hm⟩
        rcases List.mem_cons.mp hk with rfl | hk
        · refine ⟨i, by simp, ?_⟩
          unfold memH at hm ⊢; simp at hm
          exact ⟨by omega, Or.inl (by omega)⟩
        · rcases List.mem_cons.mp hk with rfl | hk
          · refine ⟨i, by simp, ?_⟩
            unfold memH at hm ⊢; simp at hm
            exact ⟨by omega, Or.inr ⟨hc.1, by omega⟩⟩
          · obtain ⟨k', hk', hm'⟩ := ih.mp ⟨k, hk, hm⟩
            exact ⟨k', List.mem_cons_of_mem _ hk', hm'⟩
      · rintro ⟨k, hk, hm⟩
        rcases List.mem_cons.mp hk with rfl | hk
        · unfold memH at hm
          rw [hc.1] at hm
          by_cases he : h = 2 * k.stop
          · exact ⟨⟨k.stop, k.stop, true⟩, by simp, by unfold memH; simp; omega⟩
          · exact ⟨⟨k.start, k.stop, false⟩, by simp, by unfold memH; simp; omega⟩
        · obtain ⟨k', hk', hm'⟩ := ih.mpr ⟨k, hk, hm⟩
          exact ⟨k', List.mem_cons_of_mem _ (List.mem_cons_of_mem _ hk'), hm'⟩
    · constructor
      · rintro ⟨k, hk, hm⟩
        rcases List.mem_cons.mp hk with rfl | hk
        · exact ⟨k, by simp, hm⟩
        · obtain ⟨k', hk', hm'⟩ := ih.mp ⟨k, hk, hm⟩
          exact ⟨k', List.mem_cons_of_mem _ hk', hm'⟩
      · rintro ⟨k, hk, hm⟩
        rcases List.mem_cons.mp hk with rfl | hk
        · exact ⟨k, by simp, hm⟩
        · obtain ⟨k', hk', hm'⟩ := ih.mpr ⟨k, hk, hm⟩
          exact ⟨k', List.mem_cons_of_mem _ hk', hm'⟩

theorem humanize_shape (l : List Interval) (hwf : ∀ i ∈ l, i.start ≤ i.stop) :
    ∀ i ∈ humanize l, i.closed = false ∨ i.start = i.stop := by
  induction l with
  | nil => simp [humanize]
  | cons j l ih =>
    have ih' := ih (fun i hi => hwf i (List.mem_cons_of_mem _ hi))
    have hj := hwf j (by simp)
    unfold humanize
    split
    · intro i hi
      rcases List.mem_cons.mp hi with rfl | hi
      · exact Or.inl rfl
      · rcases List.mem_cons.mp hi with rfl | hi
        · exact Or.inr rfl
        · exact ih' i hi
    · rename_i hc
      intro i hi
      rcases List.mem_cons.mp hi with rfl | hi
      · cases hcl : i.closed with
        | false => exact Or.inl rfl
        | true => right; have : ¬ (i.stop > i.start) := fun h => hc ⟨hcl, h⟩; omega
      · exact ih' i hi

end Starcal.Ival

#print axioms Starcal.Ival.humanize_mem
