/-! Starcal: IntervalListByNumList / Extract round trip (interval.go:334-352, 460-496),
    for every list of integers and every threshold. -/
namespace Starcal.NumList

structure Interval where
  start : Int
  stop : Int
  closed : Bool
deriving DecidableEq, Repr

/-- a, a+1, …, a+n-1  (the inner loop `for pos := Start; pos < End; pos++`) -/
def upFrom (a : Int) : Nat → List Int
  | 0 => []
  | n + 1 => a :: upFrom (a + 1) n

/-- IntervalList.Extract -/
def extract : List Interval → List Int
  | [] => []
  | i :: l => upFrom i.start (i.stop - i.start).toNat ++ (if i.closed then [i.stop] else []) ++ extract l

/-- what the code appends for a finished run `tmp` (tmpNums[0], tmpNums[len-1]) -/
def flush (k : Nat) (tmp : List Int) : List Interval :=
  match tmp.head?, tmp.getLast? with
  | some t, some l => if tmp.length > k then [⟨t, l, true⟩] else tmp.map (fun x => ⟨x, x, true⟩)
  | _, _ => []

/-- the loop of IntervalListByNumList; `tmp` is tmpNums, `acc` is list -/
def byNumAux (k : Nat) : List Int → List Int → List Interval → List Interval
  | [], tmp, acc => acc ++ flush k tmp
  | n :: ns, tmp, acc =>
    match tmp.getLast? with
    | some last => if n - last ≠ 1 then byNumAux k ns [n] (acc ++ flush k tmp)
                   else byNumAux k ns (tmp ++ [n]) acc
    | none => byNumAux k ns (tmp ++ [n]) acc

def byNumList (nums : List Int) (k : Nat) : List Interval := byNumAux k nums [] []

theorem extract_append (a b : List Interval) : extract (a ++ b) = extract a ++ extract b := by
  induction a with
  | nil => simp [extract]
  | cons i l ih => simp [extract, ih]

theorem extract_singles (l : List Int) : extract (l.map (fun x => ⟨x, x, true⟩)) = l := by
  induction l with
  | nil => simp [extract]
  | cons x xs ih => simp [extract, upFrom, ih]

theorem upFrom_snoc (a : Int) (n : Nat) : upFrom a (n + 1) = upFrom a n ++ [a + n] := by
  induction n generalizing a with
  | zero => simp [upFrom]
  | succ n ih =>
    rw [upFrom, ih (a + 1)]
    simp only [upFrom, List.cons_append]
    have : a + 1 + (n : Int) = a + ((n : Int) + 1) := by omega
    rw [this]; simp

theorem length_upFrom (a : Int) (n : Nat) : (upFrom a n).length = n := by
  induction n generalizing a with
  | zero => rfl
  | succ n ih => simp [upFrom, ih]

theorem extract_flush_run (k : Nat) (t : Int) (n : Nat) :
    extract (flush k (upFrom t (n + 1))) = upFrom t (n + 1) := by
  unfold flush
  have h1 : (upFrom t (n + 1)).head? = some t := by simp [upFrom]
  have h2 : (upFrom t (n + 1)).getLast? = some (t + n) := by simp [upFrom_snoc]
  rw [h1, h2]
  simp only
  split
  · simp only [extract, List.append_nil, if_true]
    have : (t + (n : Int) - t).toNat = n := by omega
    rw [this, ← upFrom_snoc]
  · exact extract_singles _

/-- **C13**: expanding the grouped list returns the original integers; the accumulator `tmp` is
    always a run `t, t+1, …` -/
theorem extract_byNumAux (k : Nat) (ns : List Int) (t : Int) (n : Nat) (acc : List Interval) :
    extract (byNumAux k ns (upFrom t n) acc) = extract acc ++ upFrom t n ++ ns := by
  induction ns generalizing t n acc with
  | nil =>
    cases n with
    | zero => simp [byNumAux, upFrom, flush, extract_append, extract]
    | succ n => simp [byNumAux, extract_append, extract_flush_run]
  | cons x ns ih =>
    cases n with
    | zero =>
      have e : byNumAux k (x :: ns) (upFrom t 0) acc = byNumAux k ns (upFrom x 1) acc := by
        simp [byNumAux, upFrom]
      rw [e, ih x 1 acc]
      simp [upFrom]
    | succ n =>
      have hl : (upFrom t (n + 1)).getLast? = some (t + n) := by simp [upFrom_snoc]
      unfold byNumAux
      rw [hl]
      simp only
      by_cases hx : x - (t + n) = 1
      · simp only [hx, ne_eq, not_true_eq_false, if_false]
        have e : upFrom t (n + 1) ++ [x] = upFrom t (n + 1 + 1) := by
          rw [upFrom_snoc t (n + 1)]
          have : x = t + ((n + 1 : Nat) : Int) := by simp; omega
          rw [this]
        rw [e, ih t (n + 1 + 1) acc, ← e]
        simp
      · simp only [hx, ne_eq, not_false_eq_true, if_true]
        have e : ([x] : List Int) = upFrom x 1 := by simp [upFrom]
        rw [e, ih x 1, extract_append, extract_flush_run]
        simp [upFrom]

theorem extract_byNumList (nums : List Int) (k : Nat) : extract (byNumList nums k) = nums := by
  unfold byNumList
  have := extract_byNumAux k nums 0 0 []
  simpa [upFrom, extract] using this

end Starcal.NumList
