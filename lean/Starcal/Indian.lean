import Starcal.Greg2
/-! Starcal: Indian national calendar (indian_national.go) on top of the Gregorian model. -/
namespace Starcal

def cumTab (m : Int) : Int :=
  [0, 31, 59, 90, 120, 151, 181, 212, 243, 273, 304, 334].getD (m - 1).toNat 0

/-- day-of-year form of the Gregorian day number -/
theorem gToJd_doy (y m d : Int) (h1 : 1 ≤ m) (h2 : m ≤ 12) :
    gToJd ⟨y, m, d⟩ = gToJd ⟨y, 1, 1⟩ + cumTab m + (if 2 < m ∧ gIsLeap y = true then 1 else 0) + d - 1 := by
  rcases gmonth_cases h1 h2 with h|h|h|h|h|h|h|h|h|h|h|h <;> subst h
  · simp [gToJd, cumTab]; omega
  · simp [gToJd, cumTab]; omega
  all_goals
    by_cases hl : gIsLeap y = true
    · have := (gIsLeap_iff y).mp hl
      simp [gToJd, cumTab, hl]; omega
    · have hn : ¬ (y % 4 = 0 ∧ (y % 100 ≠ 0 ∨ y % 400 = 0)) := fun h => hl ((gIsLeap_iff y).mpr h)
      simp [gToJd, cumTab, hl]; omega

theorem gYearLen (y : Int) : gToJd ⟨y + 1, 1, 1⟩ = gToJd ⟨y, 1, 1⟩ + (if gIsLeap y = true then 366 else 365) := by
  by_cases hl : gIsLeap y = true
  · have := (gIsLeap_iff y).mp hl
    simp [gToJd, hl]; omega
  · have hn : ¬ (y % 4 = 0 ∧ (y % 100 ≠ 0 ∨ y % 400 = 0)) := fun h => hl ((gIsLeap_iff y).mpr h)
    simp [gToJd, hl]; omega

/-- the Gregorian year of `gJdTo jd` brackets jd -/
theorem gYear_bracket (jd : Int) :
    gToJd ⟨(gJdTo jd).year, 1, 1⟩ ≤ jd ∧ jd < gToJd ⟨(gJdTo jd).year + 1, 1, 1⟩ := by
  have hwf := gJdTo_WF jd
  have hjd := gToJd_gJdTo jd
  generalize gJdTo jd = g at *
  rcases g with ⟨y, m, d⟩
  obtain ⟨hm1, hm2, hd1, hd2⟩ := hwf
  simp only at hm1 hm2 hd1 hd2 ⊢
  rw [gYearLen, ← hjd, gToJd_doy y m d hm1 hm2]
  by_cases hl : gIsLeap y = true
  · rcases gmonth_cases hm1 hm2 with h|h|h|h|h|h|h|h|h|h|h|h <;> subst h <;>
      simp [gMonthLen, hl] at hd2 <;> simp [cumTab, hl] <;> omega
  · rcases gmonth_cases hm1 hm2 with h|h|h|h|h|h|h|h|h|h|h|h <;> subst h <;>
      simp [gMonthLen, hl] at hd2 <;> simp [cumTab, hl] <;> omega


/-! ### the Indian national calendar -/

def iIsLeap (y : Int) : Bool := gIsLeap (y + 78)

def iToJd (d : Date) : Int :=
  let leap := iIsLeap d.year
  let start := gToJd ⟨d.year + 78, 3, if leap then 21 else 22⟩
  let dim1 : Int := if leap then 31 else 30
  if d.month = 1 then start + d.day - 1
  else if d.month ≤ 6 then start + dim1 + (d.month - 2) * 31 + d.day - 1
  else start + dim1 + 5 * 31 + (d.month - 7) * 30 + d.day - 1

def iJdTo (jd : Int) : Date :=
  let g := gJdTo jd
  let doy := jd - gToJd ⟨g.year, 1, 1⟩ + 1
  let year := if doy > 80 then g.year - 78 else g.year - 79
  let dim1 : Int := if iIsLeap year then 31 else 30
  let idoy := if doy > 80 then doy - 80 else doy + dim1 + 5 * 31 + 6 * 30 - 80
  if idoy ≤ dim1 then ⟨year, 1, idoy⟩
  else if idoy ≤ dim1 + 5 * 31 then
    let month := (idoy - dim1 - 1) / 31 + 2
    ⟨year, month, idoy - dim1 - (month - 2) * 31⟩
  else
    let month := (idoy - dim1 - 5 * 31 - 1) / 30 + 7
    ⟨year, month, idoy - dim1 - 5 * 31 - (month - 7) * 30⟩

def iMonthLen (y m : Int) : Int :=
  if m = 1 then (if iIsLeap y then 31 else 30) else if 2 ≤ m ∧ m ≤ 6 then 31 else 30

def iWF (d : Date) : Prop := 1 ≤ d.month ∧ d.month ≤ 12 ∧ 1 ≤ d.day ∧ d.day ≤ iMonthLen d.year d.month

/-- 1 Chaitra is day 81 of the Gregorian year, leap or not -/
theorem chaitra1 (Y : Int) : gToJd ⟨Y, 3, if gIsLeap Y = true then 21 else 22⟩ = gToJd ⟨Y, 1, 1⟩ + 80 := by
  rw [gToJd_doy Y 3 _ (by omega) (by omega)]
  by_cases hl : gIsLeap Y = true <;> simp [hl, cumTab] <;> omega

/-- the year start and the position inside the year determine the day number -/
theorem iToJd_eq (y m d : Int) (h1 : 1 ≤ m) (h2 : m ≤ 12) :
    iToJd ⟨y, m, d⟩ = gToJd ⟨y + 78, 1, 1⟩ + 80 +
      (if m = 1 then 0 else if m ≤ 6 then (if iIsLeap y then 31 else 30) + (m - 2) * 31
       else (if iIsLeap y then 31 else 30) + 155 + (m - 7) * 30) + d - 1 := by
  unfold iToJd
  simp only
  have := chaitra1 (y + 78)
  unfold iIsLeap at *
  by_cases hl : gIsLeap (y + 78) = true
  · simp only [hl, if_true] at this ⊢
    rw [this]; split <;> (try split) <;> omega
  · simp only [hl, Bool.false_eq_true, if_false] at this ⊢
    rw [this]; split <;> (try split) <;> omega

theorem iJdTo_spec (jd : Int) : iWF (iJdTo jd) ∧ iToJd (iJdTo jd) = jd := by
  obtain ⟨hlo, hhi⟩ := gYear_bracket jd
  unfold iJdTo
  simp only
  generalize hY : (gJdTo jd).year = Y at *
  rw [gYearLen] at hhi
  generalize hS : gToJd ⟨Y, 1, 1⟩ = S at *
  generalize hdoy : jd - S + 1 = doy
  have hd0 : 1 ≤ doy ∧ doy ≤ (if gIsLeap Y = true then 366 else 365) := by
    by_cases hl : gIsLeap Y = true
    · simp only [hl, if_true] at hhi ⊢; omega
    · simp only [hl, if_false] at hhi ⊢; omega
  by_cases h80 : doy > 80
  · simp only [h80, if_true]
    have hleapY : iIsLeap (Y - 78) = gIsLeap Y := by unfold iIsLeap; congr 1; omega
    rw [hleapY]
    generalize hdim : (if gIsLeap Y = true then (31:Int) else 30) = dim1
    have hdimv : dim1 = 30 ∨ dim1 = 31 := by rw [← hdim]; split <;> simp
    have hid : doy - 80 ≤ dim1 + 155 + 100 := by
      rw [← hdim]; split at hd0 <;> simp_all <;> omega
    have hS' : gToJd ⟨Y - 78 + 78, 1, 1⟩ = S := by
      have : Y - 78 + 78 = Y := by omega
      rw [this, hS]
    by_cases c1 : doy - 80 ≤ dim1
    · simp only [c1, if_true]
      refine ⟨⟨by simp, by simp, by simp only; omega, ?_⟩, ?_⟩
      · simp only [iMonthLen, if_true, hleapY, hdim]; exact c1
      · rw [iToJd_eq _ 1 _ (by omega) (by omega), hS']; simp; omega
    · simp only [c1, if_false]
      by_cases c2 : doy - 80 ≤ dim1 + 5 * 31
      · simp only [c2, if_true]
        generalize hmo : (doy - 80 - dim1 - 1) / 31 + 2 = mo
        have hmo0 : 2 ≤ mo ∧ mo ≤ 6 ∧ 31 * (mo - 2) ≤ doy - 80 - dim1 - 1 ∧ doy - 80 - dim1 - 1 < 31 * (mo - 2) + 31 := by
          omega
        refine ⟨⟨by simp only; omega, by simp only; omega, by simp only; omega, ?_⟩, ?_⟩
        · have : mo ≠ 1 := by omega
          simp only [iMonthLen, this, if_false]
          have : 2 ≤ mo ∧ mo ≤ 6 := ⟨hmo0.1, hmo0.2.1⟩
          simp only [this, and_self, if_true]; omega
        · rw [iToJd_eq _ mo _ (by omega) (by omega), hS', hleapY, hdim]
          have h1 : mo ≠ 1 := by omega
          have h6 : mo ≤ 6 := hmo0.2.1
          simp only [h1, if_false, h6, if_true]; omega
      · simp only [c2, if_false]
        generalize hmo : (doy - 80 - dim1 - 5 * 31 - 1) / 30 + 7 = mo
        have hmo0 : 7 ≤ mo ∧ mo ≤ 10 ∧ 30 * (mo - 7) ≤ doy - 80 - dim1 - 155 - 1 ∧
            doy - 80 - dim1 - 155 - 1 < 30 * (mo - 7) + 30 := by omega
        refine ⟨⟨by simp only; omega, by simp only; omega, by simp only; omega, ?_⟩, ?_⟩
        · have h1 : mo ≠ 1 := by omega
          have h2 : ¬ (2 ≤ mo ∧ mo ≤ 6) := by omega
          simp only [iMonthLen, h1, h2, if_false]; omega
        · rw [iToJd_eq _ mo _ (by omega) (by omega), hS', hleapY, hdim]
          have h1 : mo ≠ 1 := by omega
          have h6 : ¬ mo ≤ 6 := by omega
          simp only [h1, if_false, h6]; omega
  · simp only [h80, if_false]
    have hleapY : iIsLeap (Y - 79) = gIsLeap (Y - 1) := by unfold iIsLeap; congr 1; omega
    rw [hleapY]
    have hprev := gYearLen (Y - 1)
    have e : Y - 1 + 1 = Y := by omega
    rw [e, hS] at hprev
    generalize hSp : gToJd ⟨Y - 1, 1, 1⟩ = Sp at *
    generalize hdim : (if gIsLeap (Y - 1) = true then (31:Int) else 30) = dim1
    have hdimv : (dim1 = 31 ∧ gIsLeap (Y - 1) = true) ∨ (dim1 = 30 ∧ ¬ gIsLeap (Y - 1) = true) := by
      rw [← hdim]; by_cases hl : gIsLeap (Y - 1) = true <;> simp [hl]
    have hSS : S = Sp + dim1 + 335 := by
      rcases hdimv with ⟨h1, h2⟩ | ⟨h1, h2⟩ <;> simp [h2] at hprev <;> omega
    have hS' : gToJd ⟨Y - 79 + 78, 1, 1⟩ = Sp := by
      have : Y - 79 + 78 = Y - 1 := by omega
      rw [this, hSp]
    -- idoy = doy + dim1 + 255 lies in months 10..12
    have c1 : ¬ (doy + dim1 + 5 * 31 + 6 * 30 - 80 ≤ dim1) := by omega
    have c2 : ¬ (doy + dim1 + 5 * 31 + 6 * 30 - 80 ≤ dim1 + 5 * 31) := by omega
    simp only [c1, c2, if_false]
    generalize hmo : (doy + dim1 + 5 * 31 + 6 * 30 - 80 - dim1 - 5 * 31 - 1) / 30 + 7 = mo
    have hmo0 : 10 ≤ mo ∧ mo ≤ 12 ∧ 30 * (mo - 7) ≤ doy + 99 ∧ doy + 99 < 30 * (mo - 7) + 30 := by omega
    refine ⟨⟨by simp only; omega, by simp only; omega, by simp only; omega, ?_⟩, ?_⟩
    · have h1 : mo ≠ 1 := by omega
      have h2 : ¬ (2 ≤ mo ∧ mo ≤ 6) := by omega
      simp only [iMonthLen, h1, h2, if_false]; omega
    · rw [iToJd_eq _ mo _ (by omega) (by omega), hS', hleapY, hdim]
      have h1 : mo ≠ 1 := by omega
      have h6 : ¬ mo ≤ 6 := by omega
      simp only [h1, if_false, h6]; omega

end Starcal

#print axioms Starcal.iJdTo_spec
