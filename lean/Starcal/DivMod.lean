/-! Starcal: Go's truncating / and % plus the library's floor adjustment. -/
namespace Starcal

def goMod (a b : Int) : Int :=
  let m := Int.tmod a b
  if (m < 0 ∧ b > 0) ∨ (m > 0 ∧ b < 0) then m + b else m

def goDiv (a b : Int) : Int :=
  let m := Int.tmod a b
  if (m < 0 ∧ b > 0) ∨ (m > 0 ∧ b < 0) then Int.tdiv a b - 1 else Int.tdiv a b

theorem tmod_sign_nonneg {a : Int} (b : Int) (h : 0 ≤ a) : 0 ≤ Int.tmod a b := Int.tmod_nonneg b h
theorem tmod_sign_nonpos {a : Int} (b : Int) (h : a ≤ 0) : Int.tmod a b ≤ 0 := by
  have := Int.tmod_nonneg b (a := -a) (by omega)
  rw [Int.neg_tmod] at this; omega

theorem tmod_abs_lt (a b : Int) (hb : b ≠ 0) : (Int.tmod a b).natAbs < b.natAbs := by
  rw [Int.natAbs_tmod]; exact Nat.mod_lt _ (by omega)

/-- floor-division characterisation (Python's `//` and `%`) -/
theorem goDivMod_spec (a b : Int) (hb : b ≠ 0) :
    a = b * goDiv a b + goMod a b ∧
    (goMod a b = 0 ∨ (0 < goMod a b ↔ 0 < b)) ∧
    (goMod a b).natAbs < b.natAbs := by
  have h1 := Int.tmod_add_tdiv_mul a b
  have h3 := tmod_abs_lt a b hb
  have hmul : Int.tdiv a b * b = b * Int.tdiv a b := Int.mul_comm _ _
  have hdist : b * (Int.tdiv a b - 1) = b * Int.tdiv a b - b := by
    rw [Int.mul_sub, Int.mul_one]
  unfold goDiv goMod
  simp only []
  split <;> rename_i hc
  · refine ⟨by omega, ?_, by omega⟩
    omega
  · refine ⟨by omega, ?_, by omega⟩
    omega

end Starcal
