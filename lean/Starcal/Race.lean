import Starcal.Lock
/-! Starcal: preservation of the discipline, mutual exclusion, race freedom, termination measure. -/
namespace Starcal.Lock

theorem good_tstep {s : List Thread} {th th' : Thread} (hg : Good th) (ht : TStep s th th') : Good th' := by
  cases ht with
  | rlock hna =>
    unfold Good at hg ⊢; simp only [Bool.false_eq_true, if_false] at hg ⊢
    unfold disc at hg; rw [Bool.and_eq_true] at hg; exact hg.2
  | runlock =>
    unfold Good at hg ⊢; simp only [Bool.false_eq_true, if_false] at hg ⊢
    unfold disc at hg; rw [Bool.and_eq_true] at hg; exact hg.2
  | announce hna =>
    unfold Good at hg ⊢; simp only [Bool.false_eq_true, if_false, if_true] at hg ⊢
    unfold disc at hg; rw [Bool.and_eq_true] at hg
    exact ⟨_, _, rfl, all_lt hg.1, hg.2⟩
  | acquire hnr =>
    unfold Good at hg ⊢; simp only [if_true, Bool.false_eq_true, if_false] at hg ⊢
    obtain ⟨x', r', e, _, hd⟩ := hg
    simp at e; obtain ⟨rfl, rfl⟩ := e
    exact hd
  | unlock =>
    unfold Good at hg ⊢; simp only [Bool.false_eq_true, if_false] at hg ⊢
    unfold disc at hg; rw [Bool.and_eq_true] at hg; exact hg.2
  | access =>
    unfold Good at hg ⊢; simp only [Bool.false_eq_true, if_false] at hg ⊢
    unfold disc at hg; rw [Bool.and_eq_true] at hg; exact hg.2

theorem good_preserved {s s' : List Thread} (hg : ∀ th ∈ s, Good th) (hs : Step s s') :
    ∀ th ∈ s', Good th := by
  obtain ⟨k, hk, th', ht, rfl⟩ := hs
  intro th hm
  rcases List.mem_or_eq_of_mem_set hm with h | h
  · exact hg th h
  · subst h; exact good_tstep (hg _ (List.getElem_mem hk)) ht

/-- termination measure: strictly decreases with every step -/
def tmeasure (th : Thread) : Nat := 2 * th.prog.length - (if th.pend then 1 else 0)
def measure (s : List Thread) : Nat := (s.map tmeasure).sum

theorem tstep_measure {s : List Thread} {th th' : Thread} (ht : TStep s th th') :
    tmeasure th' < tmeasure th := by
  cases ht <;> simp [tmeasure] <;> omega

/-! ### mutual exclusion (by thread index) -/

def writerish (th : Thread) (x : Nat) : Prop :=
  (x, true) ∈ th.held ∨ (th.pend = true ∧ th.prog.head? = some (.wlock x))

/-- two different threads are never both writer(-ish) on x, and a write-held lock is read-held by
    nobody (not even its owner) -/
def Excl (s : List Thread) : Prop :=
  (∀ i j (hi : i < s.length) (hj : j < s.length) x, i ≠ j → writerish s[i] x → ¬ writerish s[j] x) ∧
  (∀ i j (hi : i < s.length) (hj : j < s.length) x, (x, true) ∈ s[i].held → (x, false) ∉ s[j].held)

theorem announced_iff (s : List Thread) (x : Nat) :
    announced s x ↔ ∃ i, ∃ hi : i < s.length, writerish s[i] x := by
  unfold announced writerish
  constructor
  · rintro ⟨th, hm, h⟩
    obtain ⟨i, hi, e⟩ := List.getElem_of_mem hm
    exact ⟨i, hi, by rw [e]; exact h⟩
  · rintro ⟨i, hi, h⟩
    exact ⟨s[i], List.getElem_mem hi, h⟩

theorem readLocked_iff (s : List Thread) (x : Nat) :
    readLocked s x ↔ ∃ i, ∃ hi : i < s.length, (x, false) ∈ s[i].held := by
  unfold readLocked
  constructor
  · rintro ⟨th, hm, h⟩
    obtain ⟨i, hi, e⟩ := List.getElem_of_mem hm
    exact ⟨i, hi, by rw [e]; exact h⟩
  · rintro ⟨i, hi, h⟩
    exact ⟨s[i], List.getElem_mem hi, h⟩

/-- a data race: two different threads are both about to access x and one access is a write -/
def RaceNow (s : List Thread) : Prop :=
  ∃ i j, ∃ hi : i < s.length, ∃ hj : j < s.length, i ≠ j ∧ ∃ x w1 w2 r1 r2,
    s[i].prog = .access x w1 :: r1 ∧ s[j].prog = .access x w2 :: r2 ∧ s[i].pend = false ∧
    s[j].pend = false ∧ (w1 = true ∨ w2 = true)

theorem access_needs {th : Thread} (hg : Good th) {x : Nat} {w : Bool} {r : List Act}
    (hp : th.prog = .access x w :: r) (hpend : th.pend = false) :
    (x, true) ∈ th.held ∨ (w = false ∧ (x, false) ∈ th.held) := by
  unfold Good at hg
  rw [hpend] at hg
  simp only [Bool.false_eq_true, if_false] at hg
  rw [hp] at hg
  unfold disc at hg
  rw [Bool.and_eq_true] at hg
  have := hg.1
  simp at this
  rcases this with h | ⟨h1, h2⟩
  · exact Or.inl h
  · exact Or.inr ⟨h1, h2⟩

/-- **race freedom** at any state satisfying the discipline and the exclusion invariant -/
theorem no_race (s : List Thread) (hg : ∀ th ∈ s, Good th) (hx : Excl s) : ¬ RaceNow s := by
  rintro ⟨i, j, hi, hj, hij, x, w1, w2, r1, r2, p1, p2, e1, e2, hw⟩
  have a1 := access_needs (hg _ (List.getElem_mem hi)) p1 e1
  have a2 := access_needs (hg _ (List.getElem_mem hj)) p2 e2
  rcases a1 with a1 | ⟨w1f, a1⟩ <;> rcases a2 with a2 | ⟨w2f, a2⟩
  · exact hx.1 i j hi hj x hij (Or.inl a1) (Or.inl a2)
  · exact hx.2 i j hi hj x a1 a2
  · exact hx.2 j i hj hi x a2 a1
  · rcases hw with h | h
    · rw [w1f] at h; simp at h
    · rw [w2f] at h; simp at h


/-! ### the exclusion invariant is preserved by every step -/

theorem tstep_facts {s : List Thread} {th th' : Thread} (ht : TStep s th th') :
    (∀ x, (x, true) ∈ th'.held → (x, true) ∈ th.held ∨ (writerish th x ∧ ¬ readLocked s x)) ∧
    (∀ x, (x, false) ∈ th'.held → (x, false) ∈ th.held ∨ ¬ announced s x) ∧
    (∀ x, writerish th' x → writerish th x ∨ ¬ announced s x) := by
  cases ht with
  | @rlock H r x0 hna =>
    refine ⟨?_, ?_, ?_⟩
    · intro x hx; simp at hx; exact Or.inl hx
    · intro x hx; simp at hx
      rcases hx with rfl | hx
      · exact Or.inr hna
      · exact Or.inl hx
    · intro x hx; unfold writerish at hx ⊢; simp at hx ⊢; exact Or.inl hx
  | @runlock H r x0 =>
    refine ⟨?_, ?_, ?_⟩
    · intro x hx; exact Or.inl (List.mem_of_mem_erase hx)
    · intro x hx; exact Or.inl (List.mem_of_mem_erase hx)
    · intro x hx; unfold writerish at hx ⊢; simp at hx ⊢
      first | exact Or.inl (List.mem_of_mem_erase hx) | exact Or.inl hx
  | @announce H r x0 hna =>
    refine ⟨?_, ?_, ?_⟩
    · intro x hx; exact Or.inl hx
    · intro x hx; exact Or.inl hx
    · intro x hx; unfold writerish at hx ⊢; simp at hx ⊢
      rcases hx with hx | hx
      · exact Or.inl hx
      · subst hx; exact Or.inr hna
  | @acquire H r x0 hnr =>
    refine ⟨?_, ?_, ?_⟩
    · intro x hx; simp at hx
      rcases hx with rfl | hx
      · exact Or.inr ⟨Or.inr ⟨rfl, rfl⟩, hnr⟩
      · exact Or.inl hx
    · intro x hx; simp at hx; exact Or.inl hx
    · intro x hx; unfold writerish at hx ⊢; simp at hx ⊢
      rcases hx with rfl | hx
      · exact Or.inl (Or.inr rfl)
      · exact Or.inl (Or.inl hx)
  | @unlock H r x0 =>
    refine ⟨?_, ?_, ?_⟩
    · intro x hx; exact Or.inl (List.mem_of_mem_erase hx)
    · intro x hx; exact Or.inl (List.mem_of_mem_erase hx)
    · intro x hx; unfold writerish at hx ⊢; simp at hx ⊢
      first | exact Or.inl (List.mem_of_mem_erase hx) | exact Or.inl hx
  | @access H r x0 w =>
    refine ⟨?_, ?_, ?_⟩
    · intro x hx; exact Or.inl hx
    · intro x hx; exact Or.inl hx
    · intro x hx; unfold writerish at hx ⊢; simp at hx ⊢; exact Or.inl hx

theorem excl_preserved {s s' : List Thread} (hx : Excl s) (hs : Step s s') : Excl s' := by
  obtain ⟨k, hk, th', ht, rfl⟩ := hs
  obtain ⟨f1, f2, f3⟩ := tstep_facts ht
  have ann : ∀ i (hi : i < s.length) x, writerish s[i] x → announced s x :=
    fun i hi x h => (announced_iff s x).mpr ⟨i, hi, h⟩
  have rdl : ∀ i (hi : i < s.length) x, (x, false) ∈ s[i].held → readLocked s x :=
    fun i hi x h => (readLocked_iff s x).mpr ⟨i, hi, h⟩
  have get : ∀ i (hi : i < (s.set k th').length), (s.set k th')[i] = if k = i then th' else s[i]'(by simpa using hi) := by
    intro i hi; simp [List.getElem_set]
  constructor
  · intro i j hi hj x hij wi wj
    rw [get i hi] at wi; rw [get j hj] at wj
    have hi' : i < s.length := by simpa using hi
    have hj' : j < s.length := by simpa using hj
    by_cases hki : k = i <;> by_cases hkj : k = j
    · exact hij (hki.symm.trans hkj)
    · subst hki
      simp only [if_true] at wi; simp only [hkj, if_false] at wj
      rcases f3 x wi with h | h
      · exact hx.1 k j hk hj' x hij h wj
      · exact h (ann j hj' x wj)
    · subst hkj
      simp only [hki, if_false] at wi; simp only [if_true] at wj
      rcases f3 x wj with h | h
      · exact hx.1 i k hi' hk x hij wi h
      · exact h (ann i hi' x wi)
    · simp only [hki, if_false] at wi; simp only [hkj, if_false] at wj
      exact hx.1 i j hi' hj' x hij wi wj
  · intro i j hi hj x hw hr
    rw [get i hi] at hw; rw [get j hj] at hr
    have hi' : i < s.length := by simpa using hi
    have hj' : j < s.length := by simpa using hj
    by_cases hki : k = i <;> by_cases hkj : k = j
    · subst hki; subst hkj
      simp only [if_true] at hw hr
      rcases f1 x hw with h1 | ⟨h1, h1'⟩ <;> rcases f2 x hr with h2 | h2
      · exact hx.2 k k hk hk x h1 h2
      · exact h2 (ann k hk x (Or.inl h1))
      · exact h1' (rdl k hk x h2)
      · exact h2 (ann k hk x h1)
    · subst hki
      simp only [if_true] at hw; simp only [hkj, if_false] at hr
      rcases f1 x hw with h1 | ⟨_, h1'⟩
      · exact hx.2 k j hk hj' x h1 hr
      · exact h1' (rdl j hj' x hr)
    · subst hkj
      simp only [hki, if_false] at hw; simp only [if_true] at hr
      rcases f2 x hr with h2 | h2
      · exact hx.2 i k hi' hk x hw h2
      · exact h2 (ann i hi' x (Or.inl hw))
    · simp only [hki, if_false] at hw; simp only [hkj, if_false] at hr
      exact hx.2 i j hi' hj' x hw hr

/-- reachability and the two headline theorems for every reachable state -/
inductive Reach (s0 : List Thread) : List Thread → Prop where
  | refl : Reach s0 s0
  | step {s s'} : Reach s0 s → Step s s' → Reach s0 s'

def Initial (s0 : List Thread) : Prop :=
  ∀ th ∈ s0, th.held = [] ∧ th.pend = false ∧ disc [] th.prog = true

theorem initial_good {s0} (h : Initial s0) : ∀ th ∈ s0, Good th := by
  intro th hm
  obtain ⟨h1, h2, h3⟩ := h th hm
  unfold Good; rw [h2, h1]; simpa using h3

theorem initial_excl {s0} (h : Initial s0) : Excl s0 := by
  constructor
  · intro i j hi hj x _ wi _
    obtain ⟨h1, h2, _⟩ := h _ (List.getElem_mem hi)
    unfold writerish at wi; rw [h1, h2] at wi; simp at wi
  · intro i j hi hj x hw _
    obtain ⟨h1, _, _⟩ := h _ (List.getElem_mem hi)
    rw [h1] at hw; simp at hw

theorem reach_inv {s0 s} (h0 : Initial s0) (hr : Reach s0 s) : (∀ th ∈ s, Good th) ∧ Excl s := by
  induction hr with
  | refl => exact ⟨initial_good h0, initial_excl h0⟩
  | step _ hs ih => exact ⟨good_preserved ih.1 hs, excl_preserved ih.2 hs⟩

/-- C16: no reachable state of a disciplined program has a data race -/
theorem reach_no_race {s0 s} (h0 : Initial s0) (hr : Reach s0 s) : ¬ RaceNow s :=
  no_race s (reach_inv h0 hr).1 (reach_inv h0 hr).2

/-- C17: no reachable state of a disciplined program is a deadlock -/
theorem reach_deadlock_free {s0 s} (h0 : Initial s0) (hr : Reach s0 s)
    (hun : ∃ th ∈ s, th.prog ≠ []) : ∃ s', Step s s' :=
  deadlock_free s (reach_inv h0 hr).1 hun

end Starcal.Lock
