import Starcal.Race
/-! Programs built from disciplined operations: the discipline is closed under sequencing, the
    measure decreases with every step, and an executable version of the step relation (used by the
    driver to search the model for a deadlock schedule when an operation is *not* disciplined). -/
namespace Starcal.Lock

/-- a disciplined action sequence ends holding what it started with minus what it released; from the
    empty set of held locks it ends empty, so disciplined operations can be sequenced -/
theorem disc_append (a b : List Act) (H : List (Nat × Bool)) (ha : disc H a = true) (hb : disc [] b = true) :
    disc H (a ++ b) = true := by
  induction a generalizing H with
  | nil =>
    simp only [disc, List.isEmpty_iff] at ha
    subst ha; simpa using hb
  | cons x xs ih =>
    cases x <;> simp only [List.cons_append, disc, Bool.and_eq_true] at ha ⊢ <;>
      exact ⟨ha.1, ih _ ha.2⟩

theorem disc_flatten (calls : List (List Act)) (h : ∀ c ∈ calls, disc [] c = true) :
    disc [] calls.flatten = true := by
  induction calls with
  | nil => simp [disc]
  | cons c cs ih =>
    simp only [List.flatten_cons]
    exact disc_append c _ [] (h c (by simp)) (ih (fun d hd => h d (List.mem_cons_of_mem _ hd)))

/-- the state in which thread i is about to run the operations `progs[i]` one after the other -/
def startState (progs : List (List (List Act))) : List Thread :=
  progs.map (fun calls => ⟨[], false, calls.flatten⟩)

theorem startState_initial (progs : List (List (List Act)))
    (h : ∀ calls ∈ progs, ∀ c ∈ calls, disc [] c = true) : Initial (startState progs) := by
  intro th hm
  unfold startState at hm
  obtain ⟨calls, hc, rfl⟩ := List.mem_map.mp hm
  exact ⟨rfl, rfl, disc_flatten calls (h calls hc)⟩

theorem sum_set_lt (l : List Thread) (k : Nat) (hk : k < l.length) (t : Thread) (h : tmeasure t < tmeasure l[k]) :
    ((l.set k t).map tmeasure).sum < (l.map tmeasure).sum := by
  induction l generalizing k with
  | nil => simp at hk
  | cons x xs ih =>
    cases k with
    | zero => simp at h ⊢; omega
    | succ k =>
      simp only [List.set_cons_succ, List.map_cons, List.sum_cons]
      have := ih k (by simpa using hk) (by simpa using h)
      omega

/-- every step strictly decreases the measure Σ(2·|prog| − pend): every execution is finite, so
    together with deadlock freedom every operation returns under every schedule -/
theorem step_measure {s s' : List Thread} (h : Step s s') : measure s' < measure s := by
  obtain ⟨k, hk, th', ht, rfl⟩ := h
  unfold measure
  exact sum_set_lt s k hk th' (tstep_measure ht)

/-! ### executable step relation -/

def announcedB (s : List Thread) (x : Nat) : Bool :=
  s.any (fun th => th.held.contains (x, true) || (th.pend && th.prog.head? == some (.wlock x)))

def readLockedB (s : List Thread) (x : Nat) : Bool := s.any (fun th => th.held.contains (x, false))

/-- the successor of thread `th` in state `s`, if it can move -/
def tstepB (s : List Thread) (th : Thread) : Option Thread :=
  match th.pend, th.prog with
  | false, .rlock x :: r => if announcedB s x then none else some ⟨(x, false) :: th.held, false, r⟩
  | false, .runlock x :: r => some ⟨th.held.erase (x, false), false, r⟩
  | false, .wlock x :: r => if announcedB s x then none else some ⟨th.held, true, .wlock x :: r⟩
  | true, .wlock x :: r => if readLockedB s x then none else some ⟨(x, true) :: th.held, false, r⟩
  | false, .unlock x :: r => some ⟨th.held.erase (x, true), false, r⟩
  | false, .access _ _ :: r => some ⟨th.held, false, r⟩
  | _, _ => none

end Starcal.Lock
