/-! utils.BisectLeft (funcs.go): `sort.Search(len(a), func(i) bool { return a[i] >= v })`, modelled as
    the binary search `sort.Search` performs, with its specification on sorted input; utils.IntMin. -/
namespace Starcal

/-- `sort.Search(n, f)` as implemented in Go: binary search on [i, j) -/
def searchAux (f : Nat → Bool) : Nat → Nat → Nat → Nat
  | 0, i, _ => i
  | fuel + 1, i, j =>
    if i < j then
      let h := (i + j) / 2
      if !f h then searchAux f fuel (h + 1) j else searchAux f fuel i h
    else i

def bisectLeft (a : List Int) (v : Int) : Nat :=
  searchAux (fun i => decide (a.getD i 0 ≥ v)) (a.length + 1) 0 a.length

def intMin (a b : Int) : Int := if a < b then a else b

theorem intMin_spec (a b : Int) : intMin a b ≤ a ∧ intMin a b ≤ b ∧ (intMin a b = a ∨ intMin a b = b) := by
  unfold intMin; split <;> omega

/-- invariant of the binary search for a monotone predicate: everything below the result is false,
    the result (if < hi) is true -/
theorem searchAux_spec (f : Nat → Bool) (hi : Nat) (hmono : ∀ x y, x ≤ y → y < hi → f x = true → f y = true)
    (fuel i j : Nat) (hij : i ≤ j) (hj : j ≤ hi) (hfuel : j - i < fuel)
    (hlow : ∀ x, x < i → f x = false) (hhigh : ∀ x, j ≤ x → x < hi → f x = true) :
    let r := searchAux f fuel i j
    i ≤ r ∧ r ≤ j ∧ (∀ x, x < r → f x = false) ∧ (∀ x, r ≤ x → x < hi → f x = true) := by
  induction fuel generalizing i j with
  | zero => omega
  | succ fuel ih =>
    unfold searchAux
    by_cases hlt : i < j
    · simp only [hlt, if_true]
      have hh1 : i ≤ (i + j) / 2 := by omega
      have hh2 : (i + j) / 2 < j := by omega
      cases hf : f ((i + j) / 2) with
      | false =>
        simp only [Bool.not_false, if_true]
        have := ih ((i + j) / 2 + 1) j (by omega) hj (by omega)
          (by
            intro x hx
            by_cases hxi : x < i
            · exact hlow x hxi
            · cases hfx : f x with
              | false => rfl
              | true =>
                have := hmono x ((i + j) / 2) (by omega) (by omega) hfx
                rw [hf] at this; exact absurd this (by simp))
          hhigh
        obtain ⟨a1, a2, a3, a4⟩ := this
        exact ⟨by omega, a2, a3, a4⟩
      | true =>
        simp only [Bool.not_true, Bool.false_eq_true, if_false]
        have := ih i ((i + j) / 2) hh1 (by omega) (by omega) hlow
          (by
            intro x hx hxhi
            exact hmono ((i + j) / 2) x hx hxhi hf)
        obtain ⟨a1, a2, a3, a4⟩ := this
        exact ⟨a1, by omega, a3, a4⟩
    · simp only [hlt, if_false]
      have : i = j := by omega
      subst this
      exact ⟨Nat.le_refl _, Nat.le_refl _, hlow, hhigh⟩

def SortedI (a : List Int) : Prop := ∀ x y, x ≤ y → y < a.length → a.getD x 0 ≤ a.getD y 0

/-- BisectLeft returns the first position whose element is not less than the key
    (the length when there is none) -/
theorem bisectLeft_spec (a : List Int) (v : Int) (hs : SortedI a) :
    bisectLeft a v ≤ a.length ∧
    (∀ x, x < bisectLeft a v → a.getD x 0 < v) ∧
    (∀ x, bisectLeft a v ≤ x → x < a.length → v ≤ a.getD x 0) := by
  unfold bisectLeft
  have := searchAux_spec (fun i => decide (a.getD i 0 ≥ v)) a.length
    (by
      intro x y hxy hy hx
      simp only [decide_eq_true_eq] at hx ⊢
      have := hs x y hxy hy
      omega)
    (a.length + 1) 0 a.length (Nat.zero_le _) (Nat.le_refl _) (by omega)
    (by intro x hx; omega) (by intro x hx hx'; omega)
  obtain ⟨_, a2, a3, a4⟩ := this
  refine ⟨a2, ?_, ?_⟩
  · intro x hx
    have := a3 x hx
    simp only [decide_eq_false_iff_not] at this
    omega
  · intro x hx hx'
    have := a4 x hx hx'
    simp only [decide_eq_true_eq] at this
    omega

end Starcal
