import Starcal.HijriT3
/-! Starcal: hijri in month-table mode, consecutive days (C02) and the length equalities (C07):
    inside the table by a general lemma about the walk, far outside it by the arithmetic theorems,
    in the two short seam zones by kernel evaluation. -/
namespace Starcal.HTable

/-- one day further in the month list: the next day of the same month, or day 1 of the next month -/
theorem pos_succ (ls : List Int) (hpos : ∀ L ∈ ls, 1 ≤ L) (rem : Int) (h0 : 0 ≤ rem) (h1 : rem + 1 ≤ sum ls) :
    ∃ i : Nat, ∃ L : Int, (pos ls rem).1 = i ∧ ls[i]? = some L ∧
      pos ls (rem + 1) = if (pos ls rem).2 < L then ((i : Int), (pos ls rem).2 + 1) else ((i : Int) + 1, 1) := by
  induction ls generalizing rem with
  | nil => simp [sum] at h1; omega
  | cons L rest ih =>
    have hL := hpos L (by simp)
    by_cases hlt : rem < L
    · refine ⟨0, L, by simp [pos, hlt], by simp, ?_⟩
      have e1 : pos (L :: rest) rem = (0, rem + 1) := by simp [pos, hlt]
      rw [e1]
      by_cases hlt2 : rem + 1 < L
      · simp [pos, hlt2]
      · have hne : ¬ (rem + 1 < L) := hlt2
        have heq : rem + 1 - L = 0 := by omega
        simp only [hne, if_false]
        unfold pos
        simp only [hne, if_false, heq]
        cases rest with
        | nil => simp [pos]
        | cons M r2 =>
          have hM := hpos M (by simp)
          have : (0 : Int) < M := by omega
          simp [pos, this]
    · obtain ⟨i, L', hi, hL', hs⟩ := ih (fun M hM => hpos M (List.mem_cons_of_mem _ hM)) (rem - L) (by omega)
        (by simp [sum] at h1; omega)
      refine ⟨i + 1, L', ?_, by simpa using hL', ?_⟩
      · simp [pos, hlt, hi]
      · have hne : ¬ (rem + 1 < L) := by omega
        have e : rem + 1 - L = rem - L + 1 := by omega
        have e1 : pos (L :: rest) rem = ((pos rest (rem - L)).1 + 1, (pos rest (rem - L)).2) := by simp [pos, hlt]
        have e2 : pos (L :: rest) (rem + 1) = ((pos rest (rem - L + 1)).1 + 1, (pos rest (rem - L + 1)).2) := by
          simp [pos, hne, e]
        rw [e1, e2, hs]
        simp only
        split <;> simp [hi] <;> omega

/-- the day of the month is within the month's length -/
theorem pos_day_bounds (ls : List Int) (hpos : ∀ L ∈ ls, 1 ≤ L) (rem : Int) (h0 : 0 ≤ rem) (h1 : rem + 1 ≤ sum ls) :
    ∃ i : Nat, ∃ L : Int, (pos ls rem).1 = i ∧ ls[i]? = some L ∧ 1 ≤ (pos ls rem).2 ∧ (pos ls rem).2 ≤ L := by
  induction ls generalizing rem with
  | nil => simp [sum] at h1; omega
  | cons L rest ih =>
    by_cases hlt : rem < L
    · exact ⟨0, L, by simp [pos, hlt], by simp, by simp [pos, hlt]; omega, by simp [pos, hlt]; omega⟩
    · obtain ⟨i, L', hi, hL', hb1, hb2⟩ := ih (fun M hM => hpos M (List.mem_cons_of_mem _ hM)) (rem - L) (by omega)
        (by simp [sum] at h1; omega)
      exact ⟨i + 1, L', by simp [pos, hlt, hi], by simpa using hL', by simpa [pos, hlt] using hb1, by simpa [pos, hlt] using hb2⟩

theorem prefixSum_succ (ls : List Int) (i : Nat) (L : Int) (h : ls[i]? = some L) :
    prefixSum ls (i + 1) = prefixSum ls i + L := by
  induction ls generalizing i with
  | nil => simp at h
  | cons a rest ih =>
    cases i with
    | zero => simp at h; subst h; simp [prefixSum, sum]
    | succ i =>
      have := ih i (by simpa using h)
      simp only [prefixSum, List.take_succ_cons, sum] at this ⊢
      omega

end Starcal.HTable

namespace Starcal.HijriT
open Starcal.Hijri Starcal.HTable

/-- a date whose month is not after the first table month, or after the last one, is converted
    arithmetically (the month index minus one is not a key of the table) -/
theorem toJdT_outside (d : Date) (h : d.year * 12 + d.month - 2 < ym0 ∨ ym0 + 211 ≤ d.year * 12 + d.month - 2) :
    toJdT d = toJd d := by
  unfold toJdT tableToJd hasYm
  have : ¬ (ym0 ≤ d.year * 12 + d.month - 1 - 1 ∧ d.year * 12 + d.month - 1 - 1 < ym0 + (lens.length : Int)) := by
    rw [lens_length]; omega
  simp [this]

/-- the first day of table month `j` (1 ≤ j ≤ 211) is served by the table -/
theorem toJdT_table (y m : Int) (j : Nat) (hym : y * 12 + m - 1 = ym0 + j) (hj : 1 ≤ j ∧ j ≤ 211) :
    toJdT ⟨y, m, 1⟩ = startJd + prefixSum lens j := by
  unfold toJdT tableToJd
  simp only
  have hhas : hasYm (y * 12 + m - 1 - 1) = true := by
    unfold hasYm; rw [lens_length]; simp; omega
  rw [hhas]
  simp only [if_true, Option.getD_some]
  have : (y * 12 + m - 1 - ym0).toNat = j := by omega
  rw [this]; omega

/-- the reported length of table month `i` (1 ≤ i ≤ 210) is its table entry -/
theorem monthLenT_table (i : Nat) (L : Int) (hi : 1 ≤ i) (hL : lens[i]? = some L) :
    monthLenT ((ym0 + i) / 12) ((ym0 + i) % 12 + 1) = L := by
  have hilt : i < 211 := by
    have := (List.getElem?_eq_some_iff.mp hL).1
    rw [lens_length] at this; exact this
  unfold monthLenT
  have hps := prefixSum_succ lens i L hL
  by_cases h12 : (ym0 + (i : Int)) % 12 + 1 = 12
  · simp only [h12, if_true]
    rw [toJdT_table ((ym0 + i) / 12 + 1) 1 (i + 1) (by unfold ym0 at *; push_cast; omega) (by omega),
      toJdT_table ((ym0 + i) / 12) 12 i (by unfold ym0 at *; omega) (by omega), hps]
    omega
  · simp only [h12, if_false]
    rw [toJdT_table ((ym0 + i) / 12) ((ym0 + i) % 12 + 1 + 1) (i + 1) (by unfold ym0 at *; push_cast; omega) (by omega),
      toJdT_table ((ym0 + i) / 12) ((ym0 + i) % 12 + 1) i (by unfold ym0 at *; omega) (by omega), hps]
    omega

/-- inside the window the table walk gives the date -/
theorem jdToT_window (jd : Int) (h1 : startJd ≤ jd) (h2 : jd ≤ endJd) :
    jdToT jd = ⟨(ym0 + (pos lens (jd - startJd)).1) / 12, (ym0 + (pos lens (jd - startJd)).1) % 12 + 1,
      (pos lens (jd - startJd)).2⟩ := by
  have hrem0 : 0 ≤ jd - startJd := by omega
  have hrem1 : jd - startJd ≤ sum lens := by unfold endJd at h2; omega
  have hwalk := walk_pos startJd lens lens_pos ym0 (jd - startJd) hrem0 hrem1
  have e : startJd + (jd - startJd) = jd := by omega
  rw [e] at hwalk
  unfold jdToT tableJdTo
  have : endJd ≥ jd ∧ jd ≥ startJd := by omega
  simp only [this, and_self, if_true, hwalk, Option.map_some]

/-- **consecutive days inside the table** (from the second table month on) -/
theorem table_window_succ (jd : Int) (h1 : startJd + 29 ≤ jd) (h2 : jd + 1 ≤ endJd) :
    jdToT (jd + 1) = succT (jdToT jd) := by
  have hrem0 : 0 ≤ jd - startJd := by omega
  have hrem1 : jd - startJd + 1 ≤ sum lens := by unfold endJd at h2; omega
  obtain ⟨i, L, hi, hL, hs⟩ := pos_succ lens lens_pos (jd - startJd) hrem0 hrem1
  have hi_pos : 1 ≤ i := by
    cases i with
    | zero =>
      exfalso
      have hfirst : (pos lens (jd - startJd)).1 = 0 := by simpa using hi
      have : ¬ (jd - startJd < 29) := by omega
      have hl : lens = 29 :: lens.tail := by decide +kernel
      rw [hl] at hfirst
      unfold pos at hfirst
      simp only [this, if_false] at hfirst
      have := pos_fst_nonneg lens.tail (jd - startJd - 29)
      omega
    | succ i => omega
  have hml := monthLenT_table i L hi_pos hL
  rw [jdToT_window jd (by omega) (by omega), jdToT_window (jd + 1) (by omega) h2]
  have e : jd + 1 - startJd = jd - startJd + 1 := by omega
  rw [e, hs, hi]
  generalize (pos lens (jd - startJd)).2 = k
  unfold succT
  simp only [hml]
  by_cases hk : k < L
  · simp only [hk, if_true]
  · simp only [hk, if_false]
    by_cases h12 : (ym0 + (i : Int)) % 12 + 1 < 12
    · simp only [h12, if_true]
      congr 1 <;> (unfold ym0 at *; omega)
    · simp only [h12, if_false]
      congr 1 <;> (unfold ym0 at *; omega)

/-- well-formed dates inside the table (from the second table month on, before the last table day) -/
theorem table_window_wf (jd : Int) (h1 : startJd + 29 ≤ jd) (h2 : jd + 1 ≤ endJd) : wfT (jdToT jd) = true := by
  have hrem0 : 0 ≤ jd - startJd := by omega
  have hrem1 : jd - startJd + 1 ≤ sum lens := by unfold endJd at h2; omega
  obtain ⟨i, L, hi, hL, hb1, hb2⟩ := pos_day_bounds lens lens_pos (jd - startJd) hrem0 hrem1
  have hi_pos : 1 ≤ i := by
    cases i with
    | zero =>
      exfalso
      have hfirst : (pos lens (jd - startJd)).1 = 0 := by simpa using hi
      have : ¬ (jd - startJd < 29) := by omega
      have hl : lens = 29 :: lens.tail := by decide +kernel
      rw [hl] at hfirst
      unfold pos at hfirst
      simp only [this, if_false] at hfirst
      have := pos_fst_nonneg lens.tail (jd - startJd - 29)
      omega
    | succ i => omega
  have hml := monthLenT_table i L hi_pos hL
  rw [jdToT_window jd (by omega) (by omega), hi]
  unfold wfT
  simp only [hml, Bool.and_eq_true, decide_eq_true_eq]
  refine ⟨⟨⟨?_, ?_⟩, hb1⟩, hb2⟩ <;> (unfold ym0; omega)

/-- far from the table the reported month length is the arithmetic one -/
theorem monthLenT_far (y m : Int) (hm : 1 ≤ m ∧ m ≤ 12) (hy : y < 1426 ∨ 1444 ≤ y) : monthLenT y m = monthLen y m := by
  unfold monthLenT
  by_cases h12 : m = 12
  · subst h12
    simp only [if_true]
    rw [toJdT_outside ⟨y + 1, 1, 1⟩ (by unfold ym0; simp only; omega), toJdT_outside ⟨y, 12, 1⟩ (by unfold ym0; simp only; omega),
      toJd_eq, toJd_eq]
    have := year_len y
    unfold monthOff monthLen
    cases hl : isLeap y <;> simp [hl] at this ⊢ <;> omega
  · simp only [h12, if_false]
    rw [toJdT_outside ⟨y, m + 1, 1⟩ (by unfold ym0; simp only; omega), toJdT_outside ⟨y, m, 1⟩ (by unfold ym0; simp only; omega),
      toJd_eq, toJd_eq, monthOff_step y m hm.1 (by omega)]
    omega

theorem year_far_low (jd : Int) (h : jd < 2453413) : (30 * (jd - 1 - Epoch) + 10646) / 10631 < 1426 := by
  have hb := year_bracket jd
  simp only at hb
  generalize (30 * (jd - 1 - Epoch) + 10646) / 10631 = y at *
  by_cases hy : y < 1426
  · exact hy
  · exfalso
    have : 2453413 ≤ yearStart y := by unfold yearStart Epoch; omega
    omega

theorem year_far_high (jd : Int) (h : 2459792 ≤ jd) : 1444 ≤ (30 * (jd - 1 - Epoch) + 10646) / 10631 := by
  have hb := year_bracket jd
  simp only at hb
  generalize (30 * (jd - 1 - Epoch) + 10646) / 10631 = y at *
  by_cases hy : 1444 ≤ y
  · exact hy
  · exfalso
    have : yearStart (y + 1) ≤ 2459792 := by unfold yearStart Epoch; omega
    omega

/-- far from the table, table mode is the arithmetic calendar: same date, same successor, well-formed -/
theorem far_succ (jd : Int) (h : jd + 1 < 2453413 ∨ 2459792 ≤ jd) :
    jdToT (jd + 1) = succT (jdToT jd) ∧ wfT (jdToT jd) = true := by
  have hy : (30 * (jd - 1 - Epoch) + 10646) / 10631 < 1426 ∨ 1444 ≤ (30 * (jd - 1 - Epoch) + 10646) / 10631 := by
    rcases h with h | h
    · exact Or.inl (year_far_low jd (by omega))
    · exact Or.inr (year_far_high jd h)
  have hy1 : (30 * (jd + 1 - 1 - Epoch) + 10646) / 10631 < 1426 ∨ 1444 ≤ (30 * (jd + 1 - 1 - Epoch) + 10646) / 10631 := by
    rcases h with h | h
    · exact Or.inl (year_far_low (jd + 1) h)
    · exact Or.inr (year_far_high (jd + 1) (by omega))
  rw [jdToT_far jd hy, jdToT_far (jd + 1) hy1, succ_step jd]
  obtain ⟨hwf, _⟩ := jdTo_spec jd
  have hyear : (jdTo jd).year = (30 * (jd - 1 - Epoch) + 10646) / 10631 := by unfold jdTo; rfl
  have hml : monthLenT (jdTo jd).year (jdTo jd).month = monthLen (jdTo jd).year (jdTo jd).month :=
    monthLenT_far _ _ ⟨hwf.1, hwf.2.1⟩ (by rw [hyear]; exact hy)
  constructor
  · unfold succT Hijri.succ
    rw [hml]
  · unfold wfT
    rw [hml]
    simp only [Bool.and_eq_true, decide_eq_true_eq]
    exact ⟨⟨⟨hwf.1, hwf.2.1⟩, hwf.2.2.1⟩, hwf.2.2.2⟩

/-- **C02 for hijri in month-table mode, partial**: the date of day n+1 is the successor (by the
    month lengths the library reports in this mode) of the date of day n for every n except five —
    the day before and the last day of the 29-day start seam, and the three days before the
    day-0 dates of the end seam (open known findings) -/
theorem hijri_table_succ_partial (jd : Int)
    (hne : jd ≠ 2453441 ∧ jd ≠ 2453469 ∧ jd ≠ 2459702 ∧ jd ≠ 2459731 ∧ jd ≠ 2459761) :
    jdToT (jd + 1) = succT (jdToT jd) := by
  by_cases h1 : jd < 2453400
  · exact (far_succ jd (Or.inl (by omega))).1
  by_cases h2 : jd < 2453500
  · have hin : jd ∈ rangeI 2453400 100 := mem_rangeI _ _ _ (by omega) (by simp; omega)
    by_cases hbad : decide (jdToT (jd + 1) ≠ succT (jdToT jd)) = true
    · have : jd ∈ (rangeI 2453400 100).filter (fun jd => decide (jdToT (jd + 1) ≠ succT (jdToT jd))) :=
        List.mem_filter.mpr ⟨hin, hbad⟩
      rw [start_zone_successor] at this
      simp at this; omega
    · simpa using hbad
  by_cases h3 : jd < 2459650
  · exact table_window_succ jd (by unfold startJd; omega) (by rw [endJd_val]; omega)
  by_cases h4 : jd < 2459810
  · have hin : jd ∈ rangeI 2459650 160 := mem_rangeI _ _ _ (by omega) (by simp; omega)
    by_cases hbad : decide (jdToT (jd + 1) ≠ succT (jdToT jd)) = true
    · have : jd ∈ (rangeI 2459650 160).filter (fun jd => decide (jdToT (jd + 1) ≠ succT (jdToT jd))) :=
        List.mem_filter.mpr ⟨hin, hbad⟩
      rw [end_zone_successor] at this
      simp at this; omega
    · simpa using hbad
  · exact (far_succ jd (Or.inr (by omega))).1

/-- … and every date produced is well-formed except on four days (the last seam day 1426/2/30
    against a 29-day month, and the three day-0 dates of the end seam) -/
theorem hijri_table_wf_partial (jd : Int)
    (hne : jd ≠ 2453470 ∧ jd ≠ 2459703 ∧ jd ≠ 2459732 ∧ jd ≠ 2459762) : wfT (jdToT jd) = true := by
  by_cases h1 : jd < 2453400
  · exact (far_succ jd (Or.inl (by omega))).2
  by_cases h2 : jd < 2453500
  · have hin : jd ∈ rangeI 2453400 100 := mem_rangeI _ _ _ (by omega) (by simp; omega)
    by_cases hbad : (!wfT (jdToT jd)) = true
    · have : jd ∈ (rangeI 2453400 100).filter (fun jd => !wfT (jdToT jd)) := List.mem_filter.mpr ⟨hin, hbad⟩
      rw [start_zone_wellformed] at this
      simp at this; omega
    · simpa using hbad
  by_cases h3 : jd < 2459650
  · exact table_window_wf jd (by unfold startJd; omega) (by rw [endJd_val]; omega)
  by_cases h4 : jd < 2459810
  · have hin : jd ∈ rangeI 2459650 160 := mem_rangeI _ _ _ (by omega) (by simp; omega)
    by_cases hbad : (!wfT (jdToT jd)) = true
    · have : jd ∈ (rangeI 2459650 160).filter (fun jd => !wfT (jdToT jd)) := List.mem_filter.mpr ⟨hin, hbad⟩
      rw [end_zone_wellformed] at this
      simp at this; omega
    · simpa using hbad
  · exact (far_succ jd (Or.inr (by omega))).2

end Starcal.HijriT
