import Starcal.Julian
/-! Starcal: the generic C03 layer: a day-numbering that starts at the anchor date and follows an
    injective successor is unique, in both directions; instantiated for the Julian calendar against
    its published rule. -/
namespace Starcal.Walk

/-- two functions ℤ → α that agree at `a0` and both commute with a successor that is injective on
    their ranges agree everywhere -/
theorem walk_unique {α : Type} (succ : α → α) (P : α → Prop)
    (hinj : ∀ x y, P x → P y → succ x = succ y → x = y)
    (f g : Int → α) (a0 : Int) (h0 : f a0 = g a0)
    (hf : ∀ n, f (n + 1) = succ (f n)) (hg : ∀ n, g (n + 1) = succ (g n))
    (hPf : ∀ n, P (f n)) (hPg : ∀ n, P (g n)) : ∀ n, f n = g n := by
  have up : ∀ k : Nat, f (a0 + k) = g (a0 + k) := by
    intro k
    induction k with
    | zero => simpa using h0
    | succ k ih =>
      have e : a0 + ((k + 1 : Nat) : Int) = a0 + k + 1 := by omega
      rw [e, hf, hg, ih]
  have down : ∀ k : Nat, f (a0 - k) = g (a0 - k) := by
    intro k
    induction k with
    | zero => simpa using h0
    | succ k ih =>
      have e : a0 - (k : Int) = a0 - ((k + 1 : Nat) : Int) + 1 := by omega
      rw [e, hf, hg] at ih
      exact hinj _ _ (hPf _) (hPg _) ih
  intro n
  by_cases h : a0 ≤ n
  · have := up (n - a0).toNat
    have e : a0 + ((n - a0).toNat : Int) = n := by omega
    rwa [e] at this
  · have := down (a0 - n).toNat
    have e : a0 - ((a0 - n).toNat : Int) = n := by omega
    rwa [e] at this

end Starcal.Walk

namespace Starcal.Julian

/-- the published Julian rule, written independently of the code -/
def ruleLeap (y : Int) : Bool := y % 4 == 0
def ruleMonthLen (y m : Int) : Int :=
  if m = 2 then (if ruleLeap y then 29 else 28)
  else if m = 4 ∨ m = 6 ∨ m = 9 ∨ m = 11 then 30 else 31
def ruleSucc (d : Date) : Date :=
  if d.day < ruleMonthLen d.year d.month then ⟨d.year, d.month, d.day + 1⟩
  else if d.month < 12 then ⟨d.year, d.month + 1, 1⟩
  else ⟨d.year + 1, 1, 1⟩

theorem monthLen_rule (y m : Int) (h1 : 1 ≤ m) (h2 : m ≤ 12) : monthLen y m = ruleMonthLen y m := by
  rcases month_cases h1 h2 with h|h|h|h|h|h|h|h|h|h|h|h <;> subst h <;>
    simp [monthLen, ruleMonthLen, monthLenTab, isLeap, ruleLeap]

theorem succ_rule (d : Date) (h : WF d) : succ d = ruleSucc d := by
  unfold succ ruleSucc
  rw [monthLen_rule d.year d.month h.1 h.2.1]

theorem succ_inj (x y : Date) (hx : WF x) (hy : WF y) (h : ruleSucc x = ruleSucc y) : x = y := by
  rw [← succ_rule x hx, ← succ_rule y hy] at h
  have h1 := (toJd_succ x hx).2
  have h2 := (toJd_succ y hy).2
  rw [h] at h1
  have : toJd x = toJd y := by omega
  have e1 := jdTo_toJd x hx
  have e2 := jdTo_toJd y hy
  rw [this] at e1
  exact e1.symm.trans e2

/-- **C03 (julian)**: any day-numbering that puts 1 January −4712 on day 0 and follows the published
    rule from day to day is the library's `JdTo` -/
theorem follows_published_rule (g : Int → Date) (h0 : g 0 = ⟨-4712, 1, 1⟩)
    (hg : ∀ n, g (n + 1) = ruleSucc (g n)) (hwf : ∀ n, WF (g n)) : ∀ n, jdTo n = g n := by
  apply Starcal.Walk.walk_unique ruleSucc WF succ_inj jdTo g 0
  · rw [anchor, h0]
  · intro n; rw [succ_step, succ_rule _ (jdTo_spec n).1]
  · exact hg
  · intro n; exact (jdTo_spec n).1
  · exact hwf

end Starcal.Julian

#print axioms Starcal.Julian.follows_published_rule
