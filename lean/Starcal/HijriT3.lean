import Starcal.HijriT2
/-! hijri in table mode, far from the table: the arithmetic calendar; and the assembled partial
    C01 theorem: every day number outside the 29-day start seam round-trips. -/
namespace Starcal.HijriT
open Starcal.Hijri Starcal.HTable

theorem lens_length : lens.length = 211 := by decide +kernel
theorem endJd_val : endJd = 2459673 := by decide +kernel

/-- a date whose year is before the table or from 1444 on is converted arithmetically -/
theorem toJdT_far (d : Date) (hm : 1 ≤ d.month ∧ d.month ≤ 12) (hy : d.year < 1426 ∨ 1444 ≤ d.year) :
    toJdT d = toJd d := by
  unfold toJdT tableToJd hasYm
  have : ¬ (ym0 ≤ d.year * 12 + d.month - 1 - 1 ∧ d.year * 12 + d.month - 1 - 1 < ym0 + (lens.length : Int)) := by
    rw [lens_length]; unfold ym0; omega
  simp [this]

theorem mem_rangeI (lo : Int) (n : Nat) (jd : Int) (h1 : lo ≤ jd) (h2 : jd < lo + n) : jd ∈ rangeI lo n := by
  unfold rangeI
  refine List.mem_map.mpr ⟨(jd - lo).toNat, List.mem_range.mpr (by omega), by omega⟩

theorem mem_rangeI_iff (lo : Int) (n : Nat) (jd : Int) : jd ∈ rangeI lo n ↔ lo ≤ jd ∧ jd < lo + n := by
  constructor
  · intro h
    unfold rangeI at h
    obtain ⟨k, hk, rfl⟩ := List.mem_map.mp h
    have := List.mem_range.mp hk
    omega
  · intro ⟨a, b⟩; exact mem_rangeI lo n jd a b

/-- far from the table, `JdTo` in table mode is the arithmetic `JdTo` -/
theorem jdToT_far (jd : Int) (hy : (30 * (jd - 1 - Epoch) + 10646) / 10631 < 1426 ∨
    1444 ≤ (30 * (jd - 1 - Epoch) + 10646) / 10631) : jdToT jd = jdTo jd := by
  have hb := year_bracket jd
  simp only at hb
  generalize hyv : (30 * (jd - 1 - Epoch) + 10646) / 10631 = y at *
  have hmono1 : y < 1426 → yearStart (y + 1) ≤ 2453413 := by intro h; unfold yearStart Epoch; omega
  have hmono2 : 1444 ≤ y → 2459792 ≤ yearStart y := by intro h; unfold yearStart Epoch; omega
  have hnone : tableJdTo jd = none := by
    unfold tableJdTo
    have : ¬ (endJd ≥ jd ∧ jd ≥ startJd) := by
      rw [endJd_val]; unfold startJd
      rcases hy with h | h
      · have := hmono1 h; omega
      · have := hmono2 h; omega
    simp [this]
  unfold jdToT jdTo
  simp only [hnone, hyv]
  have e1 : toJdT ⟨y, 1, 1⟩ = toJd ⟨y, 1, 1⟩ := toJdT_far _ (by simp) hy
  rw [e1]
  have hys : toJd ⟨y, 1, 1⟩ = yearStart y := yearStart_eq y
  generalize hmc : (2 * (jd - toJd ⟨y, 1, 1⟩) + 1 + 58) / 59 = mc
  have hmc1 : 1 ≤ mc := by rw [hys] at hmc; omega
  have hm : 1 ≤ (if 12 < mc then 12 else mc) ∧ (if 12 < mc then 12 else mc) ≤ 12 := by split <;> omega
  have e2 : toJdT ⟨y, if 12 < mc then 12 else mc, 1⟩ = toJd ⟨y, if 12 < mc then 12 else mc, 1⟩ :=
    toJdT_far _ hm hy
  rw [e2]

/-- **C01 for hijri in month-table mode, partial**: every day number outside the start seam
    (2453442 … 2453470, an open known finding) converts to a date that converts back to it -/
theorem hijri_table_jd_roundtrip_partial (jd : Int) (hseam : jd < 2453442 ∨ 2453470 < jd) :
    toJdT (jdToT jd) = jd := by
  by_cases hy : (30 * (jd - 1 - Epoch) + 10646) / 10631 < 1426 ∨ 1444 ≤ (30 * (jd - 1 - Epoch) + 10646) / 10631
  · rw [jdToT_far jd hy]
    obtain ⟨hwf, hrt⟩ := jdTo_spec jd
    have hyear : (jdTo jd).year = (30 * (jd - 1 - Epoch) + 10646) / 10631 := by unfold jdTo; rfl
    rw [toJdT_far (jdTo jd) ⟨hwf.1, hwf.2.1⟩ (by rw [hyear]; exact hy)]
    exact hrt
  · -- the year is 1426 … 1443: the day lies in [2453413, 2459792)
    have hb := year_bracket jd
    simp only at hb
    generalize hyv : (30 * (jd - 1 - Epoch) + 10646) / 10631 = y at *
    have hlo : 2453413 ≤ jd := by have : 2453413 ≤ yearStart y := by unfold yearStart Epoch; omega
                                  omega
    have hhi : jd < 2459792 := by have : yearStart (y + 1) ≤ 2459792 := by unfold yearStart Epoch; omega
                                  omega
    by_cases h1 : jd < 2453500
    · -- start zone, settled day by day in the kernel
      have hin : jd ∈ rangeI 2453400 100 := mem_rangeI _ _ _ (by omega) (by simp; omega)
      by_cases hbad : (toJdT (jdToT jd) != jd) = true
      · have : jd ∈ (rangeI 2453400 100).filter (fun jd => toJdT (jdToT jd) != jd) := List.mem_filter.mpr ⟨hin, hbad⟩
        rw [start_seam] at this
        have := (mem_rangeI_iff _ _ _).mp this
        omega
      · simpa using hbad
    · by_cases h2 : jd ≤ endJd
      · exact table_window_roundtrip jd (by unfold startJd; omega) h2
      · rw [endJd_val] at h2
        have hin : jd ∈ rangeI 2459650 160 := mem_rangeI _ _ _ (by omega) (by simp; omega)
        by_cases hbad : (toJdT (jdToT jd) != jd) = true
        · have : jd ∈ (rangeI 2459650 160).filter (fun jd => toJdT (jdToT jd) != jd) := List.mem_filter.mpr ⟨hin, hbad⟩
          rw [end_zone_roundtrip] at this
          simp at this
        · simpa using hbad

end Starcal.HijriT
