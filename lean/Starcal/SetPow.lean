import Starcal.SetM
/-! Starcal: C15 — CartesianProduct and PowerSet of the mapset model. -/
namespace Starcal.SetM

variable {α : Type} [DecidableEq α]

/-- threadunsafe.go CartesianProduct: nested loops, Add of the ordered pair -/
def cartesian (s o : S α) : S (α × α) :=
  s.foldl (fun acc i => o.foldl (fun acc2 j => (add acc2 (i, j)).1) acc) []

theorem mem_cartesian_aux (s o : S α) (acc : S (α × α)) (p : α × α) :
    p ∈ s.foldl (fun acc i => o.foldl (fun acc2 j => (add acc2 (i, j)).1) acc) acc ↔
      p ∈ acc ∨ (p.1 ∈ s ∧ p.2 ∈ o) := by
  induction s generalizing acc with
  | nil => simp
  | cons i s ih =>
    simp only [List.foldl_cons]
    rw [ih]
    have inner : ∀ (o' : S α) (a : S (α × α)), p ∈ o'.foldl (fun acc2 j => (add acc2 (i, j)).1) a ↔
        p ∈ a ∨ (p.1 = i ∧ p.2 ∈ o') := by
      intro o'
      induction o' with
      | nil => intro a; simp
      | cons j o' ihj =>
        intro a
        simp only [List.foldl_cons]
        rw [ihj, mem_add]
        constructor
        · rintro ((h | h) | ⟨h1, h2⟩)
          · exact Or.inr ⟨by rw [h], by rw [h]; simp⟩
          · exact Or.inl h
          · exact Or.inr ⟨h1, List.mem_cons_of_mem _ h2⟩
        · rintro (h | ⟨h1, h2⟩)
          · exact Or.inl (Or.inr h)
          · rcases List.mem_cons.mp h2 with h3 | h3
            · exact Or.inl (Or.inl (by cases p; simp_all))
            · exact Or.inr ⟨h1, h3⟩
    rw [inner]
    constructor
    · rintro ((h | ⟨h1, h2⟩) | ⟨h1, h2⟩)
      · exact Or.inl h
      · exact Or.inr ⟨by rw [h1]; simp, h2⟩
      · exact Or.inr ⟨List.mem_cons_of_mem _ h1, h2⟩
    · rintro (h | ⟨h1, h2⟩)
      · exact Or.inl (Or.inl h)
      · rcases List.mem_cons.mp h1 with h3 | h3
        · exact Or.inl (Or.inr ⟨h3, h2⟩)
        · exact Or.inr ⟨h3, h2⟩

theorem mem_cartesian (s o : S α) (p : α × α) : p ∈ cartesian s o ↔ p.1 ∈ s ∧ p.2 ∈ o := by
  unfold cartesian; rw [mem_cartesian_aux]; simp

/-- threadunsafe.go PowerSet: start with {∅}; for every element e, add p ∪ {e} for every p so far -/
def powerSet (s : S α) : List (S α) :=
  s.foldl (fun acc e => acc ++ acc.map (fun p => p ++ [e])) [[]]

theorem length_powerSet_aux (s : S α) (acc : List (S α)) :
    (s.foldl (fun acc e => acc ++ acc.map (fun p => p ++ [e])) acc).length = acc.length * 2 ^ s.length := by
  induction s generalizing acc with
  | nil => simp
  | cons e s ih =>
    simp only [List.foldl_cons, ih, List.length_append, List.length_map, List.length_cons]
    rw [Nat.pow_succ, ← Nat.two_mul, Nat.mul_assoc, Nat.mul_comm (2 ^ s.length) 2]
    rw [Nat.mul_left_comm]

/-- 2ⁿ members -/
theorem length_powerSet (s : S α) : (powerSet s).length = 2 ^ s.length := by
  unfold powerSet; rw [length_powerSet_aux]; simp

/-- every member only contains elements of the set -/
theorem powerSet_subset (s : S α) : ∀ p ∈ powerSet s, ∀ x ∈ p, x ∈ s := by
  unfold powerSet
  have gen : ∀ (t : S α) (acc : List (S α)) (base : S α), (∀ p ∈ acc, ∀ x ∈ p, x ∈ base) →
      ∀ p ∈ t.foldl (fun acc e => acc ++ acc.map (fun p => p ++ [e])) acc, ∀ x ∈ p, x ∈ base ∨ x ∈ t := by
    intro t
    induction t with
    | nil => intro acc base h p hp x hx; exact Or.inl (h p (by simpa using hp) x hx)
    | cons e t ih =>
      intro acc base h p hp x hx
      simp only [List.foldl_cons] at hp
      have := ih (acc ++ acc.map (fun p => p ++ [e])) (e :: base) (by
        intro q hq y hy
        rcases List.mem_append.mp hq with hq | hq
        · exact List.mem_cons_of_mem _ (h q hq y hy)
        · obtain ⟨q', hq', rfl⟩ := List.mem_map.mp hq
          rcases List.mem_append.mp hy with hy | hy
          · exact List.mem_cons_of_mem _ (h q' hq' y hy)
          · simp at hy; subst hy; simp) p hp x hx
      rcases this with h1 | h1
      · rcases List.mem_cons.mp h1 with rfl | h1
        · exact Or.inr (by simp)
        · exact Or.inl h1
      · exact Or.inr (List.mem_cons_of_mem _ h1)
  intro p hp x hx
  rcases gen s [[]] [] (by simp) p hp x hx with h | h
  · simp at h
  · exact h

/-- every sub-selection of the set (given by a predicate) occurs as a member, as the filtered list -/
theorem powerSet_complete (s : S α) (q : α → Bool) : s.filter q ∈ powerSet s := by
  unfold powerSet
  have gen : ∀ (t : S α) (acc : List (S α)) (pre : S α), pre ∈ acc →
      pre ++ t.filter q ∈ t.foldl (fun acc e => acc ++ acc.map (fun p => p ++ [e])) acc := by
    intro t
    induction t with
    | nil => intro acc pre h; simpa using h
    | cons e t ih =>
      intro acc pre h
      simp only [List.foldl_cons, List.filter_cons]
      by_cases hq : q e = true
      · simp only [hq, if_true]
        have := ih (acc ++ acc.map (fun p => p ++ [e])) (pre ++ [e])
          (List.mem_append.mpr (Or.inr (List.mem_map.mpr ⟨pre, h, rfl⟩)))
        simpa using this
      · simp only [hq, Bool.false_eq_true, if_false]
        exact ih _ pre (List.mem_append.mpr (Or.inl h))
  have := gen s [[]] [] (by simp)
  simpa using this

end Starcal.SetM

#print axioms Starcal.SetM.mem_cartesian
#print axioms Starcal.SetM.powerSet_complete
