/-! Starcal: holder-centric small-step model of writer-preferring RW locks, lock discipline,
    deadlock freedom for any number of threads and locks. -/
namespace Starcal.Lock

inductive Act where
  | rlock (x : Nat) | runlock (x : Nat) | wlock (x : Nat) | unlock (x : Nat)
  | access (x : Nat) (w : Bool)
deriving DecidableEq, Repr

structure Thread where
  held : List (Nat × Bool)   -- (lock, heldAsWriter)
  pend : Bool                -- announced as writer on the lock named by the head `wlock`
  prog : List Act
deriving Repr

/-- a writer holds x or has announced itself on x: new readers and writers must wait -/
def announced (s : List Thread) (x : Nat) : Prop :=
  ∃ th ∈ s, (x, true) ∈ th.held ∨ (th.pend = true ∧ th.prog.head? = some (.wlock x))

def readLocked (s : List Thread) (x : Nat) : Prop := ∃ th ∈ s, (x, false) ∈ th.held

inductive TStep (s : List Thread) : Thread → Thread → Prop where
  | rlock {H r x} : ¬ announced s x → TStep s ⟨H, false, .rlock x :: r⟩ ⟨(x, false) :: H, false, r⟩
  | runlock {H r x} : TStep s ⟨H, false, .runlock x :: r⟩ ⟨H.erase (x, false), false, r⟩
  | announce {H r x} : ¬ announced s x → TStep s ⟨H, false, .wlock x :: r⟩ ⟨H, true, .wlock x :: r⟩
  | acquire {H r x} : ¬ readLocked s x → TStep s ⟨H, true, .wlock x :: r⟩ ⟨(x, true) :: H, false, r⟩
  | unlock {H r x} : TStep s ⟨H, false, .unlock x :: r⟩ ⟨H.erase (x, true), false, r⟩
  | access {H r x w} : TStep s ⟨H, false, .access x w :: r⟩ ⟨H, false, r⟩

def Step (s s' : List Thread) : Prop :=
  ∃ k, ∃ hk : k < s.length, ∃ th', TStep s s[k] th' ∧ s' = s.set k th'

/-- static lock discipline of an action sequence, started while holding `H` -/
def disc : List (Nat × Bool) → List Act → Bool
  | H, [] => H.isEmpty
  | H, .rlock x :: r => H.all (fun p => p.1 < x) && disc ((x, false) :: H) r
  | H, .wlock x :: r => H.all (fun p => p.1 < x) && disc ((x, true) :: H) r
  | H, .runlock x :: r => H.contains (x, false) && disc (H.erase (x, false)) r
  | H, .unlock x :: r => H.contains (x, true) && disc (H.erase (x, true)) r
  | H, .access x w :: r => (H.contains (x, true) || (!w && H.contains (x, false))) && disc H r

def Good (th : Thread) : Prop :=
  if th.pend then
    ∃ x r, th.prog = .wlock x :: r ∧ (∀ p ∈ th.held, p.1 < x) ∧ disc ((x, true) :: th.held) r = true
  else disc th.held th.prog = true

def want (th : Thread) : Nat :=
  match th.prog with
  | .rlock x :: _ => x
  | .wlock x :: _ => x
  | _ => 0

def wantsLock (th : Thread) : Prop :=
  match th.prog with
  | .rlock _ :: _ => True
  | .wlock _ :: _ => True
  | _ => False

theorem exists_max {α} (f : α → Nat) (l : List α) (h : l ≠ []) : ∃ a ∈ l, ∀ b ∈ l, f b ≤ f a := by
  induction l with
  | nil => exact absurd rfl h
  | cons x xs ih =>
    by_cases hx : xs = []
    · subst hx; exact ⟨x, by simp, by simp⟩
    · obtain ⟨a, ha, hmax⟩ := ih hx
      by_cases hc : f a ≤ f x
      · refine ⟨x, by simp, ?_⟩
        intro b hb
        rcases List.mem_cons.mp hb with rfl | hb
        · exact Nat.le_refl _
        · exact Nat.le_trans (hmax b hb) hc
      · refine ⟨a, List.mem_cons_of_mem _ ha, ?_⟩
        intro b hb
        rcases List.mem_cons.mp hb with rfl | hb
        · omega
        · exact hmax b hb

/-- a good thread that holds something is not finished, and if its next action is a lock
    acquisition, the lock is greater than everything it holds -/
theorem all_lt {H : List (Nat × Bool)} {x : Nat} (h : H.all (fun p => decide (p.1 < x)) = true) :
    ∀ p ∈ H, p.1 < x := by
  intro p hp
  have := List.all_eq_true.mp h p hp
  simpa using this

theorem good_holds {th : Thread} (hg : Good th) {p : Nat × Bool} (hp : p ∈ th.held) :
    th.prog ≠ [] ∧ (wantsLock th → p.1 < want th) := by
  unfold Good at hg
  rcases th with ⟨H, pend, prog⟩
  simp only at *
  cases pend with
  | true =>
    rw [if_pos rfl] at hg
    obtain ⟨x, r, e, hlt, _⟩ := hg
    subst e
    exact ⟨by simp, fun _ => by simpa [want] using hlt p hp⟩
  | false =>
    rw [if_neg (by simp)] at hg
    cases prog with
    | nil =>
      simp [disc] at hg
      subst hg; simp at hp
    | cons a r =>
      refine ⟨by simp, ?_⟩
      intro hw
      cases a with
      | rlock x =>
        unfold disc at hg
        rw [Bool.and_eq_true] at hg
        simpa [want] using all_lt hg.1 p hp
      | wlock x =>
        unfold disc at hg
        rw [Bool.and_eq_true] at hg
        simpa [want] using all_lt hg.1 p hp
      | runlock x => simp [wantsLock] at hw
      | unlock x => simp [wantsLock] at hw
      | access x w => simp [wantsLock] at hw

theorem step_of_tstep {s : List Thread} {th th' : Thread} (hm : th ∈ s) (ht : TStep s th th') :
    ∃ s', Step s s' := by
  obtain ⟨k, hk, e⟩ := List.getElem_of_mem hm
  exact ⟨s.set k th', k, hk, th', by rw [e]; exact ht, rfl⟩

/-- **deadlock freedom**: if every thread respects the discipline and some thread is unfinished,
    some step is enabled -/
theorem deadlock_free (s : List Thread) (hg : ∀ th ∈ s, Good th)
    (hun : ∃ th ∈ s, th.prog ≠ []) : ∃ s', Step s s' := by
  -- a thread whose next action is not a lock acquisition can always move
  by_cases hex : ∃ th ∈ s, th.prog ≠ [] ∧ ¬ wantsLock th
  · obtain ⟨th, hm, hne, hnw⟩ := hex
    have g := hg th hm
    rcases th with ⟨H, pend, prog⟩
    unfold Good at g
    cases pend with
    | true =>
      rw [if_pos rfl] at g
      obtain ⟨x, r, e, _, _⟩ := g
      simp only at e; subst e
      exact absurd trivial (by simpa [wantsLock] using hnw)
    | false =>
      cases prog with
      | nil => exact absurd rfl hne
      | cons a r =>
        cases a with
        | rlock x => exact absurd trivial (by simpa [wantsLock] using hnw)
        | wlock x => exact absurd trivial (by simpa [wantsLock] using hnw)
        | runlock x => exact step_of_tstep hm TStep.runlock
        | unlock x => exact step_of_tstep hm TStep.unlock
        | access x w => exact step_of_tstep hm TStep.access
  have hall : ∀ th ∈ s, th.prog ≠ [] → wantsLock th := by
    intro th hm hne
    cases Classical.em (wantsLock th) with
    | inl h => exact h
    | inr h => exact absurd ⟨th, hm, hne, h⟩ hex
  -- otherwise take the unfinished thread that waits for the greatest lock
  obtain ⟨th0, hm0, hne0⟩ := hun
  let U := s.filter (fun th => !th.prog.isEmpty)
  have hU : U ≠ [] := by
    intro h
    have : th0 ∈ U := by
      simp only [U, List.mem_filter]; refine ⟨hm0, ?_⟩
      cases hp : th0.prog <;> simp_all
    rw [h] at this; simp at this
  obtain ⟨t, htU, hmax⟩ := exists_max want U hU
  have htm : t ∈ s := (List.mem_filter.mp htU).1
  have htne : t.prog ≠ [] := by
    have := (List.mem_filter.mp htU).2
    intro h; simp [h] at this
  have inU : ∀ th ∈ s, th.prog ≠ [] → th ∈ U := by
    intro th hm hne
    simp only [U, List.mem_filter]; refine ⟨hm, ?_⟩
    cases hp : th.prog <;> simp_all
  -- nobody can hold the lock `want t`: a holder would wait for something greater
  have noHolder : ∀ th ∈ s, ∀ b, (want t, b) ∉ th.held := by
    intro th hm b hb
    obtain ⟨hne, hlt⟩ := good_holds (hg th hm) hb
    have := hlt (hall th hm hne)
    have := hmax th (inU th hm hne)
    simp only at *; omega
  -- hence the only possible obstacle is a pending writer, and that writer can acquire
  have hw := hall t htm htne
  have g := hg t htm
  rcases t with ⟨H, pend, prog⟩
  cases prog with
  | nil => exact absurd rfl htne
  | cons a r =>
    cases a with
    | runlock x => simp [wantsLock] at hw
    | unlock x => simp [wantsLock] at hw
    | access x w => simp [wantsLock] at hw
    | rlock x =>
      have hp : pend = false := by
        cases pend with
        | false => rfl
        | true =>
          unfold Good at g; rw [if_pos rfl] at g
          obtain ⟨_, _, e, _, _⟩ := g
          simp at e
      subst hp
      simp only [want] at noHolder
      by_cases ha : announced s x
      · obtain ⟨th', hm', h1 | ⟨h1, h2⟩⟩ := ha
        · exact absurd h1 (noHolder th' hm' true)
        · -- th' is pending on x and nobody read-holds x
          rcases th' with ⟨H', pend', prog'⟩
          simp only at h1 h2; subst h1
          cases prog' with
          | nil => simp at h2
          | cons a' r' =>
            simp at h2; subst h2
            exact step_of_tstep hm' (TStep.acquire (by
              rintro ⟨th'', hm'', hb⟩; exact noHolder th'' hm'' false hb))
      · exact step_of_tstep htm (TStep.rlock ha)
    | wlock x =>
      simp only [want] at noHolder
      cases pend with
      | true =>
        exact step_of_tstep htm (TStep.acquire (by
          rintro ⟨th'', hm'', hb⟩; exact noHolder th'' hm'' false hb))
      | false =>
        by_cases ha : announced s x
        · obtain ⟨th', hm', h1 | ⟨h1, h2⟩⟩ := ha
          · exact absurd h1 (noHolder th' hm' true)
          · rcases th' with ⟨H', pend', prog'⟩
            simp only at h1 h2; subst h1
            cases prog' with
            | nil => simp at h2
            | cons a' r' =>
              simp at h2; subst h2
              exact step_of_tstep hm' (TStep.acquire (by
                rintro ⟨th'', hm'', hb⟩; exact noHolder th'' hm'' false hb))
        · exact step_of_tstep htm (TStep.announce ha)

end Starcal.Lock
