import Starcal.FloatStd
import Starcal.Hijri
import Starcal.RatCeil
/-! Starcal.FloatStdHijri: the two float64 expressions of hijri.go (arithmetic mode) under the standard model of
    floating-point arithmetic (FloatStd.lean): for EVERY rounding function with relative error 2^-53 that is exact on
    half-integers, the float code of ToJd / JdTo computes exactly the integer model the calendar theorems are about. -/
namespace Starcal.FloatStd
open Starcal

/-- `math.Ceil(29.5 * float64(k))` under the standard model: the product 59k/2 is a half-integer, hence exact -/
theorem ceil_half59_std (rnd : Rat → Rat) (h : StdModel rnd) (k : Int) (k0 : -1000000 < k) (k1 : k < 1000000) :
    Rat.ceil (rnd (((59 : Rat) / 2) * ((k : Int) : Rat))) = (59 * k + 1) / 2 := by
  have e : ((59 : Rat) / 2) * ((k : Int) : Rat) = (((59 * k : Int)) : Rat) / 2 := by
    simp only [Rat.intCast_mul, Rat.intCast_ofNat]; grind
  rw [e, h.exact_half (59 * k) (by omega) (by omega), ← e]
  exact RatCeil.ceil_half59 k

/-- `math.Ceil((float64(jd) + 0.5 - float64(ys)) / 29.5)` under the standard model, for a day index
    k = jd - ys in 0..400: sum and difference are half-integers (exact); the quotient (2k+1)/59 is either an
    integer (exact) or at distance at least 1/59 from every integer, far more than its rounding error -/
theorem ceil_month_std (rnd : Rat → Rat) (h : StdModel rnd) (jd ys : Int)
    (j0 : -1000000000000 < jd) (j1 : jd < 1000000000000)
    (k0 : 0 ≤ jd - ys) (k1 : jd - ys ≤ 400) :
    Rat.ceil (rnd (rnd (rnd (((jd : Int) : Rat) + (1 : Rat) / 2) - ((ys : Int) : Rat)) / ((59 : Rat) / 2))) =
      (2 * (jd - ys) + 1 + 58) / 59 := by
  -- jd + 1/2 = (2jd+1)/2
  have e1 : ((jd : Int) : Rat) + (1 : Rat) / 2 = (((2 * jd + 1 : Int)) : Rat) / 2 := by
    simp only [Rat.intCast_add, Rat.intCast_mul, Rat.intCast_ofNat]; grind
  rw [e1, h.exact_half (2 * jd + 1) (by omega) (by omega)]
  have e2 : (((2 * jd + 1 : Int)) : Rat) / 2 - ((ys : Int) : Rat) = (((2 * (jd - ys) + 1 : Int)) : Rat) / 2 := by
    simp only [Rat.intCast_add, Rat.intCast_mul, Rat.intCast_sub, Rat.intCast_ofNat]; grind
  rw [e2, h.exact_half (2 * (jd - ys) + 1) (by omega) (by omega)]
  generalize hk : jd - ys = k at *
  -- the exact quotient v = (2k+1)/59
  have ev : (((2 * k + 1 : Int)) : Rat) / 2 / ((59 : Rat) / 2) = (((2 * k + 1 : Int)) : Rat) / 59 := by grind
  rw [ev]
  generalize hm : (2 * k + 1 + 58) / 59 = m
  have hm0 : 1 ≤ m ∧ m ≤ 14 := by omega
  by_cases hdiv : (2 * k + 1) % 59 = 0
  · -- exact integer: 2k+1 = 59 m
    have : 2 * k + 1 = 59 * m := by omega
    have ex : (((2 * k + 1 : Int)) : Rat) / 59 = (((2 * m : Int)) : Rat) / 2 := by
      rw [this]; simp only [Rat.intCast_mul, Rat.intCast_ofNat]; grind
    rw [ex, h.exact_half (2 * m) (by omega) (by omega)]
    have : (((2 * m : Int)) : Rat) / 2 = ((m : Int) : Rat) := by
      simp only [Rat.intCast_mul, Rat.intCast_ofNat]; grind
    rw [this]; simp
  · -- 59(m-1) + 1 ≤ 2k+1 ≤ 59 m - 1
    have b1 : 59 * (m - 1) + 1 ≤ 2 * k + 1 := by omega
    have b2 : 2 * k + 1 ≤ 59 * m - 1 := by omega
    have c1 : (((59 * (m - 1) + 1 : Int)) : Rat) ≤ (((2 * k + 1 : Int)) : Rat) := Rat.intCast_le_intCast.mpr b1
    have c2 : (((2 * k + 1 : Int)) : Rat) ≤ (((59 * m - 1 : Int)) : Rat) := Rat.intCast_le_intCast.mpr b2
    have cm : ((m : Int) : Rat) ≤ 14 := by
      have := Rat.intCast_le_intCast.mpr hm0.2
      simpa using this
    have cm1 : (1 : Rat) ≤ ((m : Int) : Rat) := by
      have := Rat.intCast_le_intCast.mpr hm0.1
      simpa using this
    simp only [Rat.intCast_add, Rat.intCast_mul, Rat.intCast_sub, Rat.intCast_ofNat] at c1 c2
    generalize hv : (((2 * k + 1 : Int)) : Rat) / 59 = v
    have hvk : (((2 * k + 1 : Int)) : Rat) = v * 59 := by grind
    simp only [Rat.intCast_add, Rat.intCast_mul, Rat.intCast_ofNat] at hvk
    have v0 : 0 ≤ v ∧ v ≤ 14 := by grind
    have er := h.abs_err v 14 v0.1 v0.2 (by grind)
    have u14 : 14 * u ≤ 1 / 1000000 := by unfold u; grind
    apply RatCeil.ceil_eq_of
    · simp only [Rat.intCast_sub, Rat.intCast_ofNat]; grind
    · grind

/-! ### hijri.ToJd / JdTo as the float code computes them -/

/-- hijri.ToJd (arithmetic mode) with its float expression rounded by `rnd` -/
def hToJdR (rnd : Rat → Rat) (d : Hijri.Date) : Int :=
  d.day + Rat.ceil (rnd (((59 : Rat) / 2) * (((d.month - 1 : Int)) : Rat))) + (d.year - 1) * 354 + (11 * d.year + 3) / 30 +
    Hijri.Epoch

/-- hijri.JdTo (arithmetic mode) with its float expression rounded by `rnd` at every operation -/
def hJdToR (rnd : Rat → Rat) (jd : Int) : Hijri.Date :=
  let year := (30 * (jd - 1 - Hijri.Epoch) + 10646) / 10631
  let ys := hToJdR rnd ⟨year, 1, 1⟩
  let mc := Rat.ceil (rnd (rnd (rnd (((jd : Int) : Rat) + (1 : Rat) / 2) - ((ys : Int) : Rat)) / ((59 : Rat) / 2)))
  let month := if 12 < mc then 12 else mc
  let day := jd - hToJdR rnd ⟨year, month, 1⟩ + 1
  ⟨year, month, day⟩

theorem hToJdR_eq (rnd : Rat → Rat) (h : StdModel rnd) (d : Hijri.Date) (m0 : -1000 < d.month) (m1 : d.month < 1000) :
    hToJdR rnd d = Hijri.toJd d := by
  unfold hToJdR Hijri.toJd Hijri.monthOff
  rw [ceil_half59_std rnd h (d.month - 1) (by omega) (by omega)]

/-- the float code of hijri.JdTo, under the standard model, computes exactly the integer model — for every day number
    of the property's domain (and far beyond) -/
theorem hJdToR_eq (rnd : Rat → Rat) (h : StdModel rnd) (jd : Int) (j0 : -100000000000 < jd) (j1 : jd < 100000000000) :
    hJdToR rnd jd = Hijri.jdTo jd := by
  have hb := Hijri.year_bracket jd
  simp only at hb
  unfold hJdToR Hijri.jdTo
  simp only
  generalize hy : (30 * (jd - 1 - Hijri.Epoch) + 10646) / 10631 = y at *
  rw [hToJdR_eq rnd h ⟨y, 1, 1⟩ (by simp) (by simp)]
  have hlen := Hijri.year_len y
  have hys := Hijri.yearStart_eq y
  have hk : 0 ≤ jd - Hijri.toJd ⟨y, 1, 1⟩ ∧ jd - Hijri.toJd ⟨y, 1, 1⟩ ≤ 400 := by
    rw [hys]
    by_cases hl : Hijri.isLeap y = true
    · simp [hl] at hlen; omega
    · simp [hl] at hlen; omega
  rw [ceil_month_std rnd h jd _ (by omega) (by omega) hk.1 hk.2]
  generalize hmo : (if 12 < (2 * (jd - Hijri.toJd ⟨y, 1, 1⟩) + 1 + 58) / 59 then 12
    else (2 * (jd - Hijri.toJd ⟨y, 1, 1⟩) + 1 + 58) / 59) = mo
  have hmo0 : 1 ≤ mo ∧ mo ≤ 12 := by rw [← hmo]; split <;> omega
  rw [hToJdR_eq rnd h ⟨y, mo, 1⟩ (by simp only; omega) (by simp only; omega)]

/-- C01 for the hijri FLOAT code under the standard model -/
theorem hijri_float_roundtrip (rnd : Rat → Rat) (h : StdModel rnd) (jd : Int) (j0 : -100000000000 < jd) (j1 : jd < 100000000000) :
    hToJdR rnd (hJdToR rnd jd) = jd := by
  rw [hJdToR_eq rnd h jd j0 j1]
  have hw := (Hijri.jdTo_spec jd).1
  rw [hToJdR_eq rnd h _ (by unfold Hijri.WF at hw; omega) (by unfold Hijri.WF at hw; omega)]
  exact (Hijri.jdTo_spec jd).2

end Starcal.FloatStd
