import Starcal.HijriT4
/-! Starcal: hijri in month-table mode — inside the table window the date is the one reached by
    counting days from the first table day with the table's month lengths (C03). -/
namespace Starcal.HijriT
open Starcal.HTable Starcal.Hijri

/-- one day onwards by the table: day + 1 inside the month whose length is the table entry of that
    month, else day 1 of the next month (next year after month 12) -/
def tableSucc (d : Date) : Date :=
  let L := (lens[(d.year * 12 + d.month - 1 - ym0).toNat]?).getD 0
  if d.day < L then ⟨d.year, d.month, d.day + 1⟩
  else if d.month < 12 then ⟨d.year, d.month + 1, 1⟩
  else ⟨d.year + 1, 1, 1⟩

/-- the first day of the table is the table's start date -/
theorem jdToT_start : jdToT startJd = ⟨1426, 2, 1⟩ := by decide +kernel

/-- **every step inside the table window follows the table** — the first table month included -/
theorem table_window_step (jd : Int) (h1 : startJd ≤ jd) (h2 : jd + 1 ≤ endJd) :
    jdToT (jd + 1) = tableSucc (jdToT jd) := by
  have hrem0 : 0 ≤ jd - startJd := by omega
  have hrem1 : jd - startJd + 1 ≤ sum lens := by unfold endJd at h2; omega
  obtain ⟨i, L, hi, hL, hs⟩ := pos_succ lens lens_pos (jd - startJd) hrem0 hrem1
  rw [jdToT_window jd (by omega) (by omega), jdToT_window (jd + 1) (by omega) h2]
  have e : jd + 1 - startJd = jd - startJd + 1 := by omega
  rw [e, hs, hi]
  generalize (pos lens (jd - startJd)).2 = k
  unfold tableSucc
  have hidx : ((ym0 + (i : Int)) / 12 * 12 + ((ym0 + (i : Int)) % 12 + 1) - 1 - ym0).toNat = i := by omega
  simp only [hidx, hL, Option.getD_some]
  by_cases hk : k < L
  · simp only [hk, if_true]
  · simp only [hk, if_false]
    by_cases h12 : (ym0 + (i : Int)) % 12 + 1 < 12
    · simp only [h12, if_true]
      congr 1 <;> (unfold ym0 at *; omega)
    · simp only [h12, if_false]
      congr 1 <;> (unfold ym0 at *; omega)

/-- counting `n` days from the table's start date -/
def tableWalk : Nat → Date
  | 0 => ⟨1426, 2, 1⟩
  | n + 1 => tableSucc (tableWalk n)

/-- **the whole window**: day `startJd + n` is `n` table steps after the start date -/
theorem table_window_walk (n : Nat) (h : startJd + (n : Int) ≤ endJd) : jdToT (startJd + (n : Int)) = tableWalk n := by
  induction n with
  | zero => simpa [tableWalk] using jdToT_start
  | succ n ih =>
    have e : startJd + ((n + 1 : Nat) : Int) = startJd + (n : Int) + 1 := by omega
    rw [e, table_window_step _ (by omega) (by omega), ih (by omega)]
    rfl

end Starcal.HijriT
