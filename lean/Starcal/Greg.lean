namespace Starcal

structure Date where
  year : Int
  month : Int
  day : Int
deriving DecidableEq, Repr

def gToJd (d : Date) : Int :=
  let a : Int := if d.month < 3 then 1 else 0
  let y := d.year + 4800 - a
  let m := d.month + 12 * a - 3
  365 * y + y / 4 - y / 100 + y / 400 - 32045 + (153 * m + 2) / 5 + d.day

def gJdTo (jd : Int) : Date :=
  let a := jd + 32044
  let b := (4 * a + 3) / 146097
  let c := a - (146097 * b) / 4
  let d := (4 * c + 3) / 1461
  let e := c - (1461 * d) / 4
  let m := (5 * e + 2) / 153
  { day := e - (153 * m + 2) / 5 + 1
    month := m + 3 - 12 * (m / 10)
    year := 100 * b + d - 4800 + m / 10 }

def gIsLeap (y : Int) : Bool := y % 4 = 0 ∧ (y % 100 ≠ 0 ∨ y % 400 = 0)

def gMonthLen (y m : Int) : Int :=
  if m = 2 then (if gIsLeap y then 29 else 28)
  else if m = 4 ∨ m = 6 ∨ m = 9 ∨ m = 11 then 30 else 31

def gWF (d : Date) : Prop := 1 ≤ d.month ∧ d.month ≤ 12 ∧ 1 ≤ d.day ∧ d.day ≤ gMonthLen d.year d.month

/-- the decomposition facts of gJdTo, with every intermediate quantity named -/
theorem gJdTo_decomp (jd : Int) :
    ∃ b d e m : Int,
      0 ≤ d ∧ d ≤ 99 ∧ 0 ≤ e ∧ e ≤ 365 ∧ 0 ≤ m ∧ m ≤ 11 ∧
      (d = 99 → e ≤ 364 ∨ True) ∧
      jd + 32044 = 36524 * b + b / 4 + 365 * d + d / 4 + e ∧
      m = (5 * e + 2) / 153 ∧
      gJdTo jd = { day := e - (153 * m + 2) / 5 + 1, month := m + 3 - 12 * (m / 10),
                   year := 100 * b + d - 4800 + m / 10 } := by
  refine ⟨(4 * (jd + 32044) + 3) / 146097, ?_⟩
  generalize hb : (4 * (jd + 32044) + 3) / 146097 = b
  have hc : 0 ≤ jd + 32044 - 146097 * b / 4 ∧ jd + 32044 - 146097 * b / 4 ≤ 36524 := by omega
  have hq : 146097 * b / 4 = 36524 * b + b / 4 := by omega
  generalize hcc : jd + 32044 - 146097 * b / 4 = c at hc
  refine ⟨(4 * c + 3) / 1461, ?_⟩
  generalize hd : (4 * c + 3) / 1461 = d
  have hd1 : 0 ≤ d ∧ d ≤ 99 := by omega
  have hq2 : 1461 * d / 4 = 365 * d + d / 4 := by omega
  have he : 0 ≤ c - 1461 * d / 4 ∧ c - 1461 * d / 4 ≤ 365 := by omega
  generalize hee : c - 1461 * d / 4 = e at he
  refine ⟨e, (5 * e + 2) / 153, hd1.1, hd1.2, he.1, he.2, by omega, by omega, Or.inr trivial |> fun h _ => h, by omega, rfl, ?_⟩
  unfold gJdTo
  simp only [hb, hcc, hd, hee]

theorem gToJd_gJdTo (jd : Int) : gToJd (gJdTo jd) = jd := by
  obtain ⟨b, d, e, m, hd0, hd1, he0, he1, hm0, hm1, -, hjd, hm, heq⟩ := gJdTo_decomp jd
  rw [heq]
  unfold gToJd
  simp only []
  have hy1 : (100 * b + d) / 100 = b := by omega
  have hy2 : (100 * b + d) / 4 = 25 * b + d / 4 := by omega
  have hy3 : (100 * b + d) / 400 = b / 4 := by omega
  by_cases h10 : m < 10
  · have : m / 10 = 0 := by omega
    simp only [this]
    have hlt : ¬ (m + 3 - 12 * 0 < 3) := by omega
    simp only [hlt, if_false]
    have e1 : 100 * b + d - 4800 + 0 + 4800 - 0 = 100 * b + d := by omega
    have e2 : m + 3 - 12 * 0 + 12 * 0 - 3 = m := by omega
    rw [e1, e2, hy1, hy2, hy3]
    omega
  · have : m / 10 = 1 := by omega
    simp only [this]
    have hlt : (m + 3 - 12 * 1 < 3) := by omega
    simp only [hlt, if_true]
    have e1 : 100 * b + d - 4800 + 1 + 4800 - 1 = 100 * b + d := by omega
    have e2 : m + 3 - 12 * 1 + 12 * 1 - 3 = m := by omega
    rw [e1, e2, hy1, hy2, hy3]
    omega

end Starcal
