import Starcal.SrcTie.Defs
import Starcal.Hijri
import Starcal.RatCeil
/-! Source tie, cal_types/hijri in arithmetic mode (`useMonthData` fixed to false for this copy of the translation):
    the translated source equals the hand-written model `Hijri.*`. The Go code computes two month numbers in
    float64 (`math.Ceil(29.5 * …)`, `math.Ceil((… + 0.5 - …) / 29.5)`); the translator renders float64 arithmetic
    as EXACT rational arithmetic, and this file proves that the exact values are the integer expressions of the
    model. That IEEE double arithmetic gives the same values (every operand is an integer or half-integer far
    below 2^52, every quotient is at distance >= 1/59 from the next integer unless exact) is argued in DESIGN 6.5
    and exercised by the exhaustive correspondence; it is NOT proved here. -/
namespace Starcal.SrcTie
open Starcal Starcal.Gen.Src Starcal.RatCeil

theorem hijri_IsLeap_eq (y : Int) : hijri_IsLeap y = some (Hijri.isLeap y) := by
  simp only [hijri_IsLeap, utils_Mod_pos _ 30 (by decide), bind, Option.bind, pure, Hijri.isLeap]
  rw [Int.mul_comm y 11]

theorem hijri_ToJd_eq (y m d : Int) (h1 : 1 ≤ m) (h2 : m ≤ 256) :
    hijri_ToJd ⟨y, m, d⟩ = some (Hijri.toJd ⟨y, m, d⟩) := by
  have hu : GoSem.u8 (m - 1) = m - 1 := GoSem.u8_id (by omega) (by omega)
  simp only [hijri_ToJd, utils_Div_pos _ 30 (by decide), bind, Option.bind, pure, Hijri.toJd, Hijri.monthOff, hu,
    ceil_half59, ftoi_intCast, Hijri.Epoch]

theorem hijri_GetMonthLen_eq (y m : Int) (h1 : 1 ≤ m) (h2 : m ≤ 12) :
    hijri_GetMonthLen y m = some (Hijri.monthLen y m) := by
  have : m = 1 ∨ m = 2 ∨ m = 3 ∨ m = 4 ∨ m = 5 ∨ m = 6 ∨ m = 7 ∨ m = 8 ∨ m = 9 ∨ m = 10 ∨ m = 11 ∨ m = 12 := by omega
  simp only [hijri_GetMonthLen, hijri_IsLeap_eq, Hijri.monthLen, bind, Option.bind, pure]
  rcases this with h|h|h|h|h|h|h|h|h|h|h|h <;> subst h <;> first | decide | (cases Hijri.isLeap y <;> decide)

theorem hijri_JdTo_eq (jd : Int) :
    hijri_JdTo jd = some ⟨(Hijri.jdTo jd).year, (Hijri.jdTo jd).month, (Hijri.jdTo jd).day⟩ := by
  have hwf := (Hijri.jdTo_spec jd).1
  unfold Hijri.WF at hwf
  have hml := Hijri.monthLen_range (Hijri.jdTo jd).year (Hijri.jdTo jd).month
  revert hwf hml
  simp only [Hijri.jdTo]
  delta Hijri.Epoch
  simp only [hijri_JdTo, utils_Div_pos _ 10631 (by decide), hijri_ToJd_eq _ 1 1 (by decide) (by decide),
    SrcExt.lib_NewDate, bind, Option.bind, pure, ceil_month, ftoi_intCast, utils_IntMin_eq, intMin]
  generalize (30 * (jd - 1 - 1948440) + 10646) / 10631 = year
  generalize (if 12 < (2 * (jd - Hijri.toJd ⟨year, 1, 1⟩) + 1 + 58) / 59 then 12
    else (2 * (jd - Hijri.toJd ⟨year, 1, 1⟩) + 1 + 58) / 59) = mo
  intro hwf hml
  rw [GoSem.u8_id (x := mo) (by omega) (by omega)]
  simp only [hijri_ToJd_eq _ _ 1 hwf.1 (by omega)]
  rw [GoSem.u8_id (by omega) (by omega)]

/-- the hijri package in arithmetic mode, as translated from today's source, IS the model configuration `calHijA` -/
theorem hijri_translates : Translates Drv.calHijA hijri_ToJd hijri_JdTo hijri_IsLeap hijri_GetMonthLen where
  jdTo_eq jd := hijri_JdTo_eq jd
  toJd_eq y m d h1 h2 _ _ := hijri_ToJd_eq y m d h1 (by omega)
  isLeap_eq := hijri_IsLeap_eq
  monthLen_eq := hijri_GetMonthLen_eq

end Starcal.SrcTie
