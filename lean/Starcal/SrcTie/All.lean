import Starcal.SrcTie.Julian
import Starcal.SrcTie.Jalali
import Starcal.SrcTie.Ethiopian
import Starcal.SrcTie.Proleptic
import Starcal.SrcTie.Indian
import Starcal.SrcTie.Hijri
/-! Source tie, all translated calendar packages: each package of cal_types, as translated from today's
    source, is the model configuration the calendar theorems (C01, C02, C03, C07, C20) are about. -/
namespace Starcal.SrcTie
open Starcal Starcal.Gen.Src

/-- seven of the nine calendar configurations are tied to the source by translation (gregorian is Go's `time`
    package and hijri's month-table mode walks a table loaded from JSON: both by correspondence only; hijri's
    arithmetic mode with float64 arithmetic rendered as exact rational arithmetic) -/
theorem all_translate :
    Translates Drv.calJul julian_ToJd julian_JdTo julian_IsLeap julian_GetMonthLen ∧
    Translates Drv.calJal33 (jalali_ToJd false) (jalali_JdTo false) (jalali_IsLeap false) (jalali_GetMonthLen false) ∧
    Translates Drv.calJal2820 (jalali_ToJd true) (jalali_JdTo true) (jalali_IsLeap true) (jalali_GetMonthLen true) ∧
    Translates Drv.calEth ethiopian_ToJd ethiopian_JdTo ethiopian_IsLeap ethiopian_GetMonthLen ∧
    Translates Drv.calGprol gprol_ToJd gprol_JdTo gprol_IsLeap gprol_GetMonthLen ∧
    Translates Drv.calInd indian_ToJd indian_JdTo indian_IsLeap indian_GetMonthLen ∧
    Translates Drv.calHijA hijri_ToJd hijri_JdTo hijri_IsLeap hijri_GetMonthLen :=
  ⟨julian_translates, jalali33_translates, jalali2820_translates, ethiopian_translates, gprol_translates, indian_translates,
    hijri_translates⟩

end Starcal.SrcTie
