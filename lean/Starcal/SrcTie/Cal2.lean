import Starcal.SrcTie.Cal
import Starcal.Props.C03
import Starcal.Props.C07
/-! Source tie, calendars, C03 and C07 stated about the translated code (Gen/Src.lean): the translated `JdTo` IS the
    walk of the published rule from the anchor day; the translated `GetMonthLen` is the gap between the translated
    `ToJd` of consecutive month starts and the translated `IsLeap` marks the long years. -/
namespace Starcal.SrcTie
open Starcal Starcal.Gen.Src Starcal.Props Starcal.Spec

/-- C03 on the translated code: any day numbering `g` that puts the rule's anchor date on the anchor day and follows
    the rule's successor is what the translated `JdTo` returns, for every day number -/
theorem Translates.follows_rule {c : Drv.Cal} {tj jt il ml} (h : Translates c tj jt il ml) {r : Rule}
    (hr : FollowsRule c r) (g : Int → Int × Int × Int)
    (h0 : g r.anchorJd = r.anchor) (hg : ∀ n, g (n + 1) = r.succ (g n)) (hwf : ∀ n, r.WF (g n)) (n : Int) :
    jt n = some ⟨(g n).1, (g n).2.1, (g n).2.2⟩ := by
  rw [h.jdTo_eq n, hr.unique g h0 hg hwf n]

/-- … and its leap years and month lengths are the rule's -/
theorem Translates.rule_leap_mlen {c : Drv.Cal} {tj jt il ml} (h : Translates c tj jt il ml) {r : Rule}
    (hr : FollowsRule c r) (y : Int) (hy : r.noYear0 = true → y ≠ 0) :
    il y = some (r.isLeap y) ∧ ∀ m, 1 ≤ m → m ≤ 12 → ml y m = some (r.monthLen y m) := by
  refine ⟨by rw [h.isLeap_eq y, hr.leap y hy], fun m m1 m2 => ?_⟩
  rw [h.monthLen_eq y m m1 m2, hr.mlen y m hy m1 m2]

/-- C07 on the translated code: the reported length of a month is the distance between the translated day numbers of
    the first days of consecutive months -/
theorem Translates.month_gap {c : Drv.Cal} {tj jt il ml} (h : Translates c tj jt il ml) {short : Int}
    (hc : Coherent c short) (y m : Int) (hy : c.skipYear0 = true → y ≠ 0) (m1 : 1 ≤ m) (m2 : m ≤ 12) :
    ∃ a b len : Int, tj ⟨y, m, 1⟩ = some a ∧
      tj (if m < 12 then ⟨y, m + 1, 1⟩ else ⟨nextYear c y, 1, 1⟩) = some b ∧ ml y m = some len ∧ b - a = len := by
  refine ⟨c.toJd y m 1, (if m < 12 then c.toJd y (m + 1) 1 else c.toJd (nextYear c y) 1 1), c.monthLen y m,
    h.toJd_eq y m 1 m1 m2 (by decide) (by decide), ?_, h.monthLen_eq y m m1 m2, hc.month_gap y m hy m1 m2⟩
  by_cases hm : m < 12
  · simp only [hm, if_true]; exact h.toJd_eq y (m + 1) 1 (by omega) (by omega) (by decide) (by decide)
  · simp only [hm, if_false]; exact h.toJd_eq _ 1 1 (by decide) (by decide) (by decide) (by decide)

/-- C07 on the translated code: the year is reported leap exactly when it is the long one -/
theorem Translates.leap_iff_long {c : Drv.Cal} {tj jt il ml} (h : Translates c tj jt il ml) {short : Int}
    (hc : Coherent c short) (y : Int) (hy : c.skipYear0 = true → y ≠ 0) :
    ∃ a b : Int, ∃ l : Bool, tj ⟨y, 1, 1⟩ = some a ∧ tj ⟨nextYear c y, 1, 1⟩ = some b ∧ il y = some l ∧
      b - a = if l = true then short + 1 else short :=
  ⟨c.toJd y 1 1, c.toJd (nextYear c y) 1 1, c.isLeap y, h.toJd_eq y 1 1 (by decide) (by decide) (by decide) (by decide),
    h.toJd_eq _ 1 1 (by decide) (by decide) (by decide) (by decide), h.isLeap_eq y, hc.leap_iff_long y hy⟩

/-- C03 and C07 for one translated package, with no hand-written model in the statement -/
structure SourceRuleOK (tj : GoSem.Date → Option Int) (jt : Int → Option GoSem.Date) (il : Int → Option Bool)
    (ml : Int → Int → Option Int) (r : Rule) (short : Int) : Prop where
  follows : ∀ g : Int → Int × Int × Int, g r.anchorJd = r.anchor → (∀ n, g (n + 1) = r.succ (g n)) → (∀ n, r.WF (g n)) →
    ∀ n, jt n = some ⟨(g n).1, (g n).2.1, (g n).2.2⟩
  leap_mlen : ∀ y, (r.noYear0 = true → y ≠ 0) →
    il y = some (r.isLeap y) ∧ ∀ m, 1 ≤ m → m ≤ 12 → ml y m = some (r.monthLen y m)
  month_gap : ∀ y m, (r.noYear0 = true → y ≠ 0) → 1 ≤ m → m ≤ 12 →
    ∃ a b len : Int, tj ⟨y, m, 1⟩ = some a ∧
      tj (if m < 12 then ⟨y, m + 1, 1⟩ else ⟨(if r.noYear0 = true ∧ y = -1 then 1 else y + 1), 1, 1⟩) = some b ∧
      ml y m = some len ∧ b - a = len
  leap_iff_long : ∀ y, (r.noYear0 = true → y ≠ 0) →
    ∃ a b : Int, ∃ l : Bool, tj ⟨y, 1, 1⟩ = some a ∧ tj ⟨(if r.noYear0 = true ∧ y = -1 then 1 else y + 1), 1, 1⟩ = some b ∧
      il y = some l ∧ b - a = if l = true then short + 1 else short

theorem Translates.sourceRuleOK {c : Drv.Cal} {tj jt il ml} (h : Translates c tj jt il ml) {r : Rule} {short : Int}
    (hr : FollowsRule c r) (hc : Coherent c short) : SourceRuleOK tj jt il ml r short where
  follows g h0 hg hwf n := h.follows_rule hr g h0 hg hwf n
  leap_mlen y hy := h.rule_leap_mlen hr y hy
  month_gap y m hy m1 m2 := by
    have := h.month_gap hc y m (by rw [hr.year0]; exact hy) m1 m2
    unfold nextYear at this
    rw [hr.year0] at this
    exact this
  leap_iff_long y hy := by
    have := h.leap_iff_long hc y (by rw [hr.year0]; exact hy)
    unfold nextYear at this
    rw [hr.year0] at this
    exact this

theorem src2_julian : SourceRuleOK julian_ToJd julian_JdTo julian_IsLeap julian_GetMonthLen Spec.julian 365 :=
  julian_translates.sourceRuleOK C03_julian C07_julian
theorem src2_jalali_33 :
    SourceRuleOK (jalali_ToJd false) (jalali_JdTo false) (jalali_IsLeap false) (jalali_GetMonthLen false) Spec.jalali33 365 :=
  jalali33_translates.sourceRuleOK C03_jalali_33 C07_jalali_33
theorem src2_jalali_2820 :
    SourceRuleOK (jalali_ToJd true) (jalali_JdTo true) (jalali_IsLeap true) (jalali_GetMonthLen true) Spec.jalali2820 365 :=
  jalali2820_translates.sourceRuleOK C03_jalali_2820 C07_jalali_2820
theorem src2_ethiopian : SourceRuleOK ethiopian_ToJd ethiopian_JdTo ethiopian_IsLeap ethiopian_GetMonthLen Spec.ethiopian 365 :=
  ethiopian_translates.sourceRuleOK C03_ethiopian C07_ethiopian
theorem src2_gregorian_proleptic : SourceRuleOK gprol_ToJd gprol_JdTo gprol_IsLeap gprol_GetMonthLen Spec.gregorianProleptic 365 :=
  gprol_translates.sourceRuleOK C03_gregorian_proleptic C07_gregorian_proleptic
theorem src2_indian_national : SourceRuleOK indian_ToJd indian_JdTo indian_IsLeap indian_GetMonthLen Spec.indianNational 365 :=
  indian_translates.sourceRuleOK C03_indian_national C07_indian_national
theorem src2_hijri_arithmetic : SourceRuleOK hijri_ToJd hijri_JdTo hijri_IsLeap hijri_GetMonthLen Spec.hijri 354 :=
  hijri_translates.sourceRuleOK C03_hijri_arithmetic C07_hijri_arithmetic

/-- non-vacuity: the translated julian code on the month February -4712 (a leap year) -/
example : julian_ToJd ⟨-4712, 2, 1⟩ = some 31 ∧ julian_ToJd ⟨-4712, 3, 1⟩ = some 60 ∧ julian_GetMonthLen (-4712) 2 = some 29 := by
  decide

end Starcal.SrcTie
