import Starcal.SrcTie.Defs
import Starcal.Ethiopian
import Starcal.Ethiopian2
/-! Source tie, cal_types/ethiopian: the translated source equals the hand-written model `Ethiopian.*`. -/
namespace Starcal.SrcTie
open Starcal Starcal.Gen.Src

theorem ethiopian_IsLeap_eq (y : Int) : ethiopian_IsLeap y = some (Ethiopian.isLeap y) := by
  simp only [ethiopian_IsLeap, Ethiopian.isLeap, pure, tmod_zero_iff (y + 1) 4 (by decide), int_beq]

theorem ethiopian_ToJd_eq (y m d : Int) (h1 : 1 ≤ m) (h2 : m ≤ 256) :
    ethiopian_ToJd ⟨y, m, d⟩ = some (Ethiopian.toJd ⟨y, m, d⟩) := by
  have hu : GoSem.u8 (m - 1) = m - 1 := GoSem.u8_id (by omega) (by omega)
  simp only [ethiopian_ToJd, utils_Div_pos _ 4 (by decide), bind, Option.bind, pure, Ethiopian.toJd, hu, Ethiopian.Epoch]

theorem ethiopian_GetMonthLen_eq (y m : Int) (h1 : 1 ≤ m) (h2 : m ≤ 12) :
    ethiopian_GetMonthLen y m = some (Ethiopian.monthLen y m) := by
  have : m = 1 ∨ m = 2 ∨ m = 3 ∨ m = 4 ∨ m = 5 ∨ m = 6 ∨ m = 7 ∨ m = 8 ∨ m = 9 ∨ m = 10 ∨ m = 11 ∨ m = 12 := by omega
  simp only [ethiopian_GetMonthLen, ethiopian_IsLeap_eq, Ethiopian.monthLen, bind, Option.bind, pure]
  rcases this with h|h|h|h|h|h|h|h|h|h|h|h <;> subst h <;> first | decide | (cases Ethiopian.isLeap y <;> decide)

/-- the day of the year counted from the first day of the computed year is never negative
    (so Go's truncating `/` and `%` on it are the floor ones) -/
theorem ethiopian_yearday_nonneg (jd : Int) :
    0 ≤ jd - Ethiopian.toJd ⟨(jd - 1724235) / 1461 * 4 +
      (if 3 < (jd - 1724235) % 1461 / 365 then 3 else (jd - 1724235) % 1461 / 365) + 1, 1, 1⟩ := by
  have e : Ethiopian.Epoch = 1724235 := rfl
  generalize hq : (jd - 1724235) / 1461 = q
  generalize hr : (jd - 1724235) % 1461 = r
  have hr0 : 0 ≤ r ∧ r < 1461 := by omega
  have hjd : jd = 1724235 + 1461 * q + r := by omega
  generalize hyi : (if 3 < r / 365 then 3 else r / 365) = yi
  have hyi0 : 0 ≤ yi ∧ yi ≤ 3 ∧ 365 * yi ≤ r ∧ (yi < 3 → r < 365 * yi + 365) := by
    rw [← hyi]; split <;> omega
  rw [Ethiopian.yearStart q yi hyi0.1 hyi0.2.1]
  split <;> omega

theorem ethiopian_JdTo_eq (jd : Int) :
    ethiopian_JdTo jd = some ⟨(Ethiopian.jdTo jd).year, (Ethiopian.jdTo jd).month, (Ethiopian.jdTo jd).day⟩ := by
  have hwf := (Ethiopian.jdTo_spec jd).1
  unfold Ethiopian.WF at hwf
  have hml : Ethiopian.monthLen (Ethiopian.jdTo jd).year (Ethiopian.jdTo jd).month ≤ 36 := by
    unfold Ethiopian.monthLen; split <;> (try split) <;> omega
  revert hwf hml
  have c0 := Int.emod_nonneg (jd - 1724235) (show (1461:Int) ≠ 0 by decide)
  have hy := ethiopian_yearday_nonneg jd
  simp only [Ethiopian.jdTo, Ethiopian.jdToWith]
  delta Ethiopian.Epoch
  simp only [ethiopian_JdTo, utils_Divmod_pos _ 1461 (by decide),
    utils_IntMin_eq, intMin, tdiv_nonneg_eq c0, ethiopian_ToJd_eq _ 1 1 (by decide) (by decide), ethiopian_IsLeap_eq,
    SrcExt.lib_NewDate, bind, Option.bind, pure, tdiv_nonneg_eq hy, tmod_nonneg_eq hy]
  generalize (jd - 1724235) / 1461 * 4 + (if 3 < (jd - 1724235) % 1461 / 365 then 3 else (jd - 1724235) % 1461 / 365) + 1 = year
  generalize jd - Ethiopian.toJd ⟨year, 1, 1⟩ = yd
  have u8i : ∀ x : Int, 0 ≤ x → x ≤ 36 → GoSem.u8 x = x := fun x a b => GoSem.u8_id a (by omega)
  by_cases h13 : yd / 30 + 1 = 13 <;> by_cases h12 : yd / 30 + 1 = 12 <;> cases hl : Ethiopian.isLeap year <;>
    simp [h13, h12, hl]
  all_goals ((try split) <;> (intro a b c d e; simp [GoSem.u8] at a b c d e ⊢; omega))

/-- the ethiopian package, as translated from today's source, IS the model configuration `calEth` -/
theorem ethiopian_translates :
    Translates Drv.calEth ethiopian_ToJd ethiopian_JdTo ethiopian_IsLeap ethiopian_GetMonthLen where
  jdTo_eq jd := ethiopian_JdTo_eq jd
  toJd_eq y m d h1 h2 _ _ := ethiopian_ToJd_eq y m d h1 (by omega)
  isLeap_eq := ethiopian_IsLeap_eq
  monthLen_eq := ethiopian_GetMonthLen_eq

end Starcal.SrcTie
