import Starcal.SrcTie.Normalize
import Starcal.Inter
import Starcal.Props.C04
/-! Source tie, interval.IntersectionOfSomeIntervalLists (and the two-list method `IntervalList.Intersection`): the
    whole many-list sweep — normalise every operand, collect and sort the end points, walk them with the
    `IntervalListIntersectionState` that `intersectionOfSomeIntervalLists_endPoint` updates through a pointer — as
    translated from today's source, is the model's `intersectMany` of Inter.lean, the function every C04 theorem is about.
    The code marks a closed slot of `openStartList` with the sentinel MIN_INT64; the model uses `none`. The two agree as
    long as no end point sits AT MIN_INT64, which is the one hypothesis of the theorems below. -/
namespace Starcal.SrcTie
open Starcal Starcal.Gen.Src Starcal.Ival

/-- utils.MIN_INT64 -/
def MIN : Int := -9223372036854775808

abbrev IState := interval_IntervalListIntersectionState

def toOpen (x : Int) : Option Int := if x = MIN then none else some x
def toOpens (l : List Int) : List (Option Int) := l.map toOpen

/-! ### the loop of endPoint: `hasNil` and the largest open start -/

def epBody : IState → Int → Int → Option (GoSem.Flow IState Empty) := fun state _i tmpStart => do
  let state ← (do
    if (decide (tmpStart = (-9223372036854775808))) then
      let state := { state with hasNil := true }
      pure state
    else
      pure state
    )
  if (decide (tmpStart > (state).start)) then
    let state := { state with start := tmpStart }
    pure (GoSem.Flow.next state)
  else
    pure (GoSem.Flow.next state)

def mx (a b : Int) : Int := if b > a then b else a

theorem ep_loop (L : List Int) : ∀ (i : Int) (s : IState),
    GoSem.forFold epBody L i s = some (GoSem.Flow.next
      { s with hasNil := s.hasNil || L.any (fun x => decide (x = MIN)), start := L.foldl mx s.start }) := by
  induction L with
  | nil => intro i s; simp [GoSem.forFold]
  | cons x xs ih =>
    intro i s
    have hb : epBody s i x = some (GoSem.Flow.next
        { s with hasNil := s.hasNil || decide (x = MIN), start := mx s.start x }) := by
      simp only [epBody, mx, MIN, bind, Option.bind, pure]
      by_cases h1 : x = -9223372036854775808
      · subst h1
        by_cases h2 : (-9223372036854775808 : Int) > s.start <;> simp [h2]
      · by_cases h2 : x > s.start <;> simp [h1, h2]
    simp only [GoSem.forFold, hb, ih, List.any_cons, List.foldl_cons]
    congr 3
    simp [Bool.or_assoc]

theorem foldl_mx (T : List Int) : ∀ c, MIN ≤ c → T.foldl mx c = max c (T.foldl mx MIN) := by
  induction T with
  | nil => intro c hc; simp; omega
  | cons t ts ih =>
    intro c hc
    simp only [List.foldl_cons]
    rw [ih (mx c t) (by unfold mx; split <;> omega), ih (mx MIN t) (by unfold mx; split <;> omega)]
    unfold mx
    split <;> split <;> omega

theorem allOpen_cons (o : Option Int) (rest : List (Option Int)) (h : rest ≠ []) :
    allOpen (o :: rest) = (match o, allOpen rest with
      | some a, some b => some (max a b)
      | _, _ => none) := by
  cases rest with
  | nil => exact absurd rfl h
  | cons r rs => rfl

/-- the model's `allOpen` on the sentinel encoding of a non-empty slot list whose entries are MIN or above -/
theorem allOpen_toOpens (L : List Int) (hne : L ≠ []) (hge : ∀ x ∈ L, MIN ≤ x) :
    (MIN ∈ L → allOpen (toOpens L) = none) ∧
    (MIN ∉ L → allOpen (toOpens L) = some (L.foldl mx MIN)) := by
  induction L with
  | nil => exact absurd rfl hne
  | cons a as ih =>
    have ha := hge a (by simp)
    cases as with
    | nil =>
      by_cases h : a = MIN
      · simp [toOpens, toOpen, allOpen, h]
      · have : mx MIN a = a := by unfold mx; split <;> omega
        have h' : ¬ MIN = a := fun e => h e.symm
        simp [toOpens, toOpen, allOpen, h, h', this]
    | cons b bs =>
      have ih' := ih (by simp) (fun x hx => hge x (by simp [hx]))
      have hc : toOpens (a :: b :: bs) = toOpen a :: toOpens (b :: bs) := rfl
      have hne' : toOpens (b :: bs) ≠ [] := by simp [toOpens]
      rw [hc, allOpen_cons _ _ hne']
      constructor
      · intro hmem
        by_cases h : a = MIN
        · simp [toOpen, h]
        · have : MIN ∈ (b :: bs) := by
            rcases List.mem_cons.mp hmem with h1 | h1
            · exact absurd h1.symm h
            · exact h1
          rw [ih'.1 this]
          simp [toOpen, h]
      · intro hmem
        have h : a ≠ MIN := fun e => hmem (by simp [e])
        have hn : MIN ∉ (b :: bs) := fun e => hmem (List.mem_cons_of_mem _ e)
        rw [ih'.2 hn]
        simp only [toOpen, h, if_false]
        have hm : mx MIN a = a := by unfold mx; split <;> omega
        have e1 : List.foldl mx MIN (a :: b :: bs) = List.foldl mx a (b :: bs) := by
          rw [List.foldl_cons, hm]
        rw [e1, foldl_mx (b :: bs) a ha]

/-! ### one end point -/

/-- the code's state against the model's: slots through the sentinel encoding, output reversed -/
def IRel (s : IState) (m : ISt) : Prop :=
  m.opens = toOpens s.openStartList ∧ m.out = (s.result.map toIv).reverse

theorem map_set_list {α β : Type} (f : α → β) (l : List α) (k : Nat) (a : α) :
    (l.set k a).map f = (l.map f).set k (f a) := by
  induction l generalizing k with
  | nil => rfl
  | cons x xs ih => cases k <;> simp [ih]

theorem setA_in {α : Type} (l : List α) (i : Int) (v : α) (h0 : 0 ≤ i) (h1 : i < l.length) :
    GoSem.setA l i v = some (l.set i.toNat v) := by
  simp [GoSem.setA, h0, h1]

theorem mem_set_ge (L : List Int) (k : Nat) (v : Int) (hv : MIN ≤ v) (hge : ∀ x ∈ L, MIN ≤ x) :
    ∀ x ∈ L.set k v, MIN ≤ x := by
  intro x hx
  rcases List.mem_or_eq_of_mem_set hx with h | h
  · exact hge x h
  · subst h; exact hv

theorem any_min_iff (L : List Int) : L.any (fun x => decide (x = MIN)) = true ↔ MIN ∈ L := by
  simp [List.any_eq_true]

/-- the state after the loop of endPoint -/
def epBase (s : IState) : IState :=
  { hasNil := s.openStartList.any (fun x => decide (x = MIN)),
    start := List.foldl mx (-9223372036854775808) s.openStartList,
    openStartList := s.openStartList, result := s.result }

theorem endPoint_step (s : IState) (m : ISt) (p : interval_IntervalPoint) (hrel : IRel s m)
    (h0 : 0 ≤ p.ListId) (h1 : p.ListId < s.openStartList.length) (hge : ∀ x ∈ s.openStartList, MIN ≤ x)
    (hp : MIN < p.Pos) (hend : p.IsEnd = true) :
    (interStep m (toPoint p) = none ∧ ∃ s', interval_intersectionOfSomeIntervalLists_endPoint s p = some (true, s')) ∨
    (∃ m' s', interStep m (toPoint p) = some m' ∧
      interval_intersectionOfSomeIntervalLists_endPoint s p = some (false, s') ∧ IRel s' m' ∧
      (∀ x ∈ s'.openStartList, MIN ≤ x) ∧ s'.openStartList.length = s.openStartList.length) := by
  have hdef : interval_intersectionOfSomeIntervalLists_endPoint s p = (do
      let state : IState := { s with hasNil := false }
      let state : IState := { state with start := (-9223372036854775808) }
      let r ← GoSem.forFold epBody state.openStartList 0 state
      match r with
      | GoSem.Flow.ret v => nomatch v
      | GoSem.Flow.next state =>
        if (!(state).hasNil) then
          if (decide ((state).start > (p).Pos)) then
            pure (true, state)
          else
            let state ← (do
              if ((decide ((p).Pos > (state).start)) || (p).Closed) then
                let state : IState := { state with result := ((state).result ++ [({ Start := (state).start, End := (p).Pos, ClosedEnd := (p).Closed } : interval_Interval)]) }
                pure state
              else
                pure state
              )
            let state : IState := { state with openStartList := (← GoSem.setA (state).openStartList (p).ListId (-9223372036854775808)) }
            pure (false, state)
        else
          let state : IState := { state with openStartList := (← GoSem.setA (state).openStartList (p).ListId (-9223372036854775808)) }
          pure (false, state)) := rfl
  obtain ⟨ho, hout⟩ := hrel
  have hne : s.openStartList ≠ [] := by
    intro e; rw [e] at h1; simp at h1; omega
  have hao := allOpen_toOpens s.openStartList hne hge
  have hset := setA_in s.openStartList p.ListId (-9223372036854775808) h0 h1
  have hgeS : ∀ x ∈ s.openStartList.set p.ListId.toNat (-9223372036854775808), MIN ≤ x :=
    mem_set_ge _ _ _ (by decide) hge
  have hmodel : interStep m (toPoint p) =
      (match allOpen m.opens with
        | some start =>
          if start > p.Pos then none
          else some { opens := m.opens.set p.ListId.toNat none,
                      out := if p.Pos > start ∨ p.Closed = true then ⟨start, p.Pos, p.Closed⟩ :: m.out else m.out }
        | none => some { m with opens := m.opens.set p.ListId.toNat none }) := by
    simp only [interStep, toPoint, hend, Bool.true_eq_false, if_false]
    cases allOpen m.opens <;> rfl
  have hopens' : toOpens (s.openStartList.set p.ListId.toNat (-9223372036854775808)) = (toOpens s.openStartList).set p.ListId.toNat none := by
    unfold toOpens
    rw [map_set_list]
    simp [toOpen, MIN]
  rw [hdef, hmodel]
  simp only [bind, Option.bind, ep_loop, Bool.false_or]
  by_cases hmin : MIN ∈ s.openStartList
  · -- some slot is closed: the model has no common start
    right
    have hany : s.openStartList.any (fun x => decide (x = MIN)) = true := (any_min_iff _).mpr hmin
    rw [ho, hao.1 hmin]
    refine ⟨_, { epBase s with openStartList := s.openStartList.set p.ListId.toNat (-9223372036854775808) }, rfl, ?_, ⟨?_, ?_⟩, ?_, ?_⟩
    · simp only [hany, Bool.not_true, Bool.false_eq_true, if_false, hset, pure, epBase]
    · exact hopens'.symm
    · exact hout
    · exact hgeS
    · simp
  · have hany : s.openStartList.any (fun x => decide (x = MIN)) = false := by
      cases h : s.openStartList.any (fun x => decide (x = MIN)) with
      | false => rfl
      | true => exact absurd ((any_min_iff _).mp h) hmin
    rw [ho, hao.2 hmin]
    have hst : List.foldl mx (-9223372036854775808) s.openStartList = List.foldl mx MIN s.openStartList := rfl
    by_cases hgt : List.foldl mx MIN s.openStartList > p.Pos
    · left
      refine ⟨by simp [hgt], epBase s, ?_⟩
      simp only [hany, Bool.not_false, if_true, hst, hgt, decide_true, pure, epBase]
    · right
      by_cases hemit : p.Pos > List.foldl mx MIN s.openStartList ∨ p.Closed = true
      · have hc : (decide (p.Pos > List.foldl mx MIN s.openStartList) || p.Closed) = true := by
          rcases hemit with h | h <;> simp [h]
        refine ⟨_, { epBase s with
            result := s.result ++ [{ Start := List.foldl mx MIN s.openStartList, End := p.Pos, ClosedEnd := p.Closed }],
            openStartList := s.openStartList.set p.ListId.toNat (-9223372036854775808) },
          (by simp only [hgt, if_false]; rfl), ?_, ⟨?_, ?_⟩, ?_, ?_⟩
        · simp only [hany, Bool.not_false, if_true, hst, hgt, decide_false, Bool.false_eq_true, if_false, hc, hset, pure, epBase]
        · exact hopens'.symm
        · simp [hemit, hout, toIv, epBase]
        · exact hgeS
        · simp
      · have hc : (decide (p.Pos > List.foldl mx MIN s.openStartList) || p.Closed) = false := by
          have h1 : ¬ p.Pos > List.foldl mx MIN s.openStartList := fun h => hemit (Or.inl h)
          have h2 : p.Closed = false := by cases h : p.Closed <;> simp_all
          simp [h1, h2]
        refine ⟨_, { epBase s with openStartList := s.openStartList.set p.ListId.toNat (-9223372036854775808) },
          (by simp only [hgt, if_false]; rfl), ?_, ⟨?_, ?_⟩, ?_, ?_⟩
        · simp only [hany, Bool.not_false, if_true, hst, hgt, decide_false, Bool.false_eq_true, if_false, hc, hset, pure, epBase]
        · exact hopens'.symm
        · simp [hemit, hout, epBase]
        · exact hgeS
        · simp

/-! ### the sweep over the sorted end points -/

def swBody : IState → Int → interval_IntervalPoint → Option (GoSem.Flow IState (Option (List interval_Interval))) :=
  fun state _i point => do
    if (point).IsEnd then
      let (err_1, state) ← (interval_intersectionOfSomeIntervalLists_endPoint state point)
      if err_1 then
        pure (GoSem.Flow.ret none)
      else
        pure (GoSem.Flow.next state)
    else
      if (decide ((← (GoSem.idx (state).openStartList (point).ListId)) ≠ (-9223372036854775808))) then
        pure (GoSem.Flow.ret none)
      else
        let state := { state with openStartList := (← GoSem.setA (state).openStartList (point).ListId (point).Pos) }
        pure (GoSem.Flow.next state)

/-- what the sweep needs of a point: its list number is a slot, its position is not the sentinel -/
def PtOK (n : Nat) (p : interval_IntervalPoint) : Prop := 0 ≤ p.ListId ∧ p.ListId < n ∧ MIN < p.Pos

theorem sw_step (s : IState) (m : ISt) (i : Int) (p : interval_IntervalPoint) (hrel : IRel s m)
    (hp : PtOK s.openStartList.length p) (hge : ∀ x ∈ s.openStartList, MIN ≤ x) :
    (interStep m (toPoint p) = none ∧ swBody s i p = some (GoSem.Flow.ret none)) ∨
    (∃ m' s', interStep m (toPoint p) = some m' ∧ swBody s i p = some (GoSem.Flow.next s') ∧ IRel s' m' ∧
      (∀ x ∈ s'.openStartList, MIN ≤ x) ∧ s'.openStartList.length = s.openStartList.length) := by
  obtain ⟨h0, h1, hpos⟩ := hp
  cases hend : p.IsEnd with
  | true =>
    rcases endPoint_step s m p hrel h0 h1 hge hpos hend with ⟨hm, s', hs⟩ | ⟨m', s', hm, hs, hr, hg, hl⟩
    · left
      refine ⟨hm, ?_⟩
      simp [swBody, hend, hs, bind, Option.bind, pure]
    · right
      refine ⟨m', s', hm, ?_, hr, hg, hl⟩
      simp [swBody, hend, hs, bind, Option.bind, pure]
  | false =>
    obtain ⟨ho, hout⟩ := hrel
    have hk : p.ListId.toNat < s.openStartList.length := by omega
    obtain ⟨x, hx⟩ : ∃ x, s.openStartList[p.ListId.toNat]? = some x := ⟨_, List.getElem?_eq_getElem hk⟩
    have hidx : GoSem.idx s.openStartList p.ListId = some x := by simp [GoSem.idx, h0, hx]
    have hmo : m.opens[p.ListId.toNat]? = some (toOpen x) := by
      rw [ho]; simp [toOpens, hx]
    have hmodel : interStep m (toPoint p) =
        (match m.opens[p.ListId.toNat]? with
          | some none => some { m with opens := m.opens.set p.ListId.toNat (some p.Pos) }
          | _ => none) := by
      simp only [interStep, toPoint, hend, if_true]
      cases m.opens[p.ListId.toNat]? with
      | none => rfl
      | some o => cases o <;> rfl
    rw [hmodel, hmo]
    by_cases hx0 : x = MIN
    · right
      have hset := setA_in s.openStartList p.ListId p.Pos h0 h1
      refine ⟨_, { s with openStartList := s.openStartList.set p.ListId.toNat p.Pos }, (by simp only [toOpen, hx0, if_true]; rfl), ?_, ⟨?_, ?_⟩, ?_, ?_⟩
      · have : x = -9223372036854775808 := hx0
        simp [swBody, hend, hidx, this, hset, bind, Option.bind, pure]
      · show m.opens.set p.ListId.toNat (some p.Pos) = toOpens (s.openStartList.set p.ListId.toNat p.Pos)
        rw [ho]
        unfold toOpens
        rw [map_set_list]
        have : p.Pos ≠ MIN := by omega
        simp [toOpen, this]
      · exact hout
      · exact mem_set_ge _ _ _ (by omega) hge
      · simp
    · left
      refine ⟨by simp [toOpen, hx0], ?_⟩
      have : ¬ x = -9223372036854775808 := hx0
      simp [swBody, hend, hidx, this, bind, Option.bind, pure]

theorem sw_loop (pts : List interval_IntervalPoint) :
    ∀ (s : IState) (m : ISt) (i : Int), IRel s m → (∀ p ∈ pts, PtOK s.openStartList.length p) →
    (∀ x ∈ s.openStartList, MIN ≤ x) →
    (interSweep (pts.map toPoint) m = none ∧ GoSem.forFold swBody pts i s = some (GoSem.Flow.ret none)) ∨
    (∃ m' s', interSweep (pts.map toPoint) m = some m' ∧ GoSem.forFold swBody pts i s = some (GoSem.Flow.next s') ∧
      IRel s' m') := by
  induction pts with
  | nil => intro s m i hr _ _; exact Or.inr ⟨m, s, rfl, rfl, hr⟩
  | cons p ps ih =>
    intro s m i hr hok hge
    rw [List.map_cons, interSweep_cons]
    rcases sw_step s m i p hr (hok p (by simp)) hge with ⟨hm, hb⟩ | ⟨m', s', hm, hb, hr', hg', hl'⟩
    · left
      exact ⟨by rw [hm]; rfl, by simp only [GoSem.forFold, hb]⟩
    · have := ih s' m' (i + 1) hr' (fun q hq => by rw [hl']; exact hok q (by simp [hq])) hg'
      rw [hm]
      simpa only [GoSem.forFold, hb, Option.bind] using this

/-! ### positions survive Normalize (so the sentinel hypothesis carries over to the normalised operands) -/

theorem insertPt_mem (p : Point) (l : List Point) : ∀ q ∈ insertPt p l, q = p ∨ q ∈ l := by
  induction l with
  | nil => intro q hq; simp [insertPt] at hq; exact Or.inl hq
  | cons x xs ih =>
    intro q hq
    unfold insertPt at hq
    split at hq
    · rcases List.mem_cons.mp hq with h | h
      · exact Or.inl h
      · exact Or.inr h
    · rcases List.mem_cons.mp hq with h | h
      · exact Or.inr (by simp [h])
      · rcases ih q h with h' | h'
        · exact Or.inl h'
        · exact Or.inr (by simp [h'])

theorem sortPts_mem (l : List Point) : ∀ q ∈ sortPts l, q ∈ l := by
  induction l with
  | nil => intro q hq; simp [sortPts] at hq
  | cons x xs ih =>
    intro q hq
    rcases insertPt_mem x (sortPts xs) q hq with h | h
    · simp [h]
    · simp [ih q h]

theorem pointsOf_pos (Q : Int → Prop) (lid : Nat) (l : List Interval) (h : ∀ i ∈ l, Q i.start ∧ Q i.stop) :
    ∀ p ∈ pointsOf lid l, Q p.pos := by
  induction l with
  | nil => intro p hp; simp [pointsOf] at hp
  | cons i l ih =>
    intro p hp
    have hi := h i (by simp)
    simp only [pointsOf, List.mem_cons] at hp
    rcases hp with e | e | e
    · subst e; exact hi.1
    · subst e; exact hi.2
    · exact ih (fun j hj => h j (by simp [hj])) p e

theorem sweep_pos (Q : Int → Prop) (ps : List Point) : ∀ (st st' : St), (∀ p ∈ ps, Q p.pos) →
    (∀ x ∈ st.1, Q x) → (∀ i ∈ st.2, Q i.start ∧ Q i.stop) → sweep ps st = some st' →
    (∀ i ∈ st'.2, Q i.start ∧ Q i.stop) := by
  induction ps with
  | nil =>
    intro st st' _ _ h2 hs
    simp [sweep] at hs
    subst hs
    exact h2
  | cons p ps ih =>
    intro st st' hp h1 h2 hs
    have hsw : sweep (p :: ps) st = (stepN st p).bind (fun s => sweep ps s) := by
      simp [sweep, List.foldlM_cons, bind]
    rw [hsw] at hs
    cases hst : stepN st p with
    | none => simp [hst] at hs
    | some st1 =>
      simp only [hst, Option.bind] at hs
      have hq := hp p (by simp)
      have hps : ∀ q ∈ ps, Q q.pos := fun q hq => hp q (by simp [hq])
      obtain ⟨s1, s2⟩ := st
      simp only at h1 h2
      by_cases he : p.isEnd = false
      · have e : stepN (s1, s2) p = some (p.pos :: s1, s2) := by simp [stepN, he]
        rw [e] at hst
        cases hst
        exact ih _ _ hps (by
          intro x hx
          rcases List.mem_cons.mp hx with e | e
          · subst e; exact hq
          · exact h1 x e) h2 hs
      · cases s1 with
        | nil => simp [stepN, he] at hst
        | cons a t =>
          cases t with
          | nil =>
            have e : stepN ([a], s2) p = some ([], ⟨a, p.pos, p.closed⟩ :: s2) := by simp [stepN, he]
            rw [e] at hst
            cases hst
            have ha : Q a := h1 a (by simp)
            exact ih _ _ hps (by simp) (by
              intro i hi
              rcases List.mem_cons.mp hi with e | e
              · subst e; exact ⟨ha, hq⟩
              · exact h2 i e) hs
          | cons r rest =>
            have e : stepN (a :: r :: rest, s2) p = some (r :: rest, s2) := by simp [stepN, he]
            rw [e] at hst
            cases hst
            exact ih _ _ hps (by
              intro x hx
              exact h1 x (List.mem_cons_of_mem _ hx)) h2 hs

theorem normalize_pos (Q : Int → Prop) (l r : List Interval) (h : ∀ i ∈ l, Q i.start ∧ Q i.stop)
    (hr : normalize l = some r) : ∀ i ∈ r, Q i.start ∧ Q i.stop := by
  unfold normalize at hr
  cases hs : sweep (sortPts (pointsOf 0 l)) ([], []) with
  | none => simp [hs] at hr
  | some st =>
    simp [hs] at hr
    subst hr
    have := sweep_pos Q (sortPts (pointsOf 0 l)) ([], []) st
      (fun p hp => pointsOf_pos Q 0 l h p (sortPts_mem _ p hp)) (by simp) (by simp) hs
    intro i hi
    exact this i (by simpa using hi)

/-! ### the loops of IntersectionOfSomeIntervalLists -/

abbrev LL := List (List interval_Interval)
abbrev mp (l : List interval_Interval) : List Interval := l.map toIv

def PosOK (ls : LL) : Prop := ∀ l ∈ ls, ∀ iv ∈ l, MIN < iv.Start ∧ MIN < iv.End

def lens : LL → Int
  | [] => 0
  | l :: ls => (l.length : Int) + lens ls

theorem lens_nonneg (ls : LL) : 0 ≤ lens ls := by
  induction ls with
  | nil => decide
  | cons l ls ih => simp only [lens]; omega

def normBody : (LL × Bool × Int) → Int → List interval_Interval →
    Option (GoSem.Flow (LL × Bool × Int) (Option (List interval_Interval))) :=
  fun (lists, err, intervalCount) listId list => do
    let _t1 ← (interval_Normalize list)
    let (list, err) := (match _t1 with | some _v => (_v, false) | none => (([] : (List interval_Interval)), true))
    if err then
      pure (GoSem.Flow.ret none)
    else
      let lists ← GoSem.setA lists listId list
      let intervalCount := (intervalCount + ((list).length : Int))
      pure (GoSem.Flow.next (lists, err, intervalCount))

theorem norm_loop (rest : LL) : ∀ (done : LL) (cnt : Int), PosOK rest →
    (normAll (rest.map mp) = none ∧
      GoSem.forFold normBody rest (done.length : Int) (done ++ rest, false, cnt) = some (GoSem.Flow.ret none)) ∨
    (∃ ns : LL, normAll (rest.map mp) = some (ns.map mp) ∧
      GoSem.forFold normBody rest (done.length : Int) (done ++ rest, false, cnt)
        = some (GoSem.Flow.next (done ++ ns, false, cnt + lens ns)) ∧
      ns.length = rest.length ∧ PosOK ns) := by
  induction rest with
  | nil =>
    intro done cnt _
    exact Or.inr ⟨[], rfl, by simp [GoSem.forFold, lens], rfl, by intro l hl; simp at hl⟩
  | cons x xs ih =>
    intro done cnt hpos
    obtain ⟨r0, hn, hm⟩ := interval_Normalize_eq x
    have hxs : PosOK xs := fun l hl => hpos l (by simp [hl])
    have hmodel : normAll ((x :: xs).map mp) = (match normalize (mp x), normAll (xs.map mp) with
        | some r, some rs => some (r :: rs)
        | _, _ => none) := rfl
    cases r0 with
    | none =>
      left
      have hnone : normalize (mp x) = none := by simpa using hm.symm
      refine ⟨by rw [hmodel, hnone], ?_⟩
      have hb : normBody (done ++ x :: xs, false, cnt) (done.length : Int) x = some (GoSem.Flow.ret none) := by
        simp [normBody, hn, bind, Option.bind, pure]
      simp only [GoSem.forFold, hb]
    | some r =>
      have hsome : normalize (mp x) = some (mp r) := by simpa using hm.symm
      have hset : GoSem.setA (done ++ x :: xs) (done.length : Int) r = some (done ++ r :: xs) :=
        setA_at_len done xs x r _ rfl
      have hb : normBody (done ++ x :: xs, false, cnt) (done.length : Int) x
          = some (GoSem.Flow.next ((done ++ [r]) ++ xs, false, cnt + (r.length : Int))) := by
        simp [normBody, hn, hset, bind, Option.bind, pure]
      have hidx : ((done.length : Int) + 1) = ((done ++ [r]).length : Int) := by simp
      have hrpos : ∀ iv ∈ r, MIN < iv.Start ∧ MIN < iv.End := by
        have := normalize_pos (fun v => MIN < v) (mp x) (mp r)
          (by
            intro i hi
            obtain ⟨j, hj, rfl⟩ := List.mem_map.mp hi
            exact hpos x (by simp) j hj) hsome
        intro iv hiv
        exact this (toIv iv) (List.mem_map_of_mem hiv)
      rcases ih (done ++ [r]) (cnt + (r.length : Int)) hxs with ⟨hmn, hg⟩ | ⟨ns, hmn, hg, hl, hp⟩
      · left
        refine ⟨by rw [hmodel, hsome, hmn], ?_⟩
        simp only [GoSem.forFold, hb, hidx, hg]
      · right
        refine ⟨r :: ns, by rw [hmodel, hsome, hmn]; rfl, ?_, by simp [hl], ?_⟩
        · have e1 : done ++ [r] ++ ns = done ++ r :: ns := by simp
          have e2 : cnt + (r.length : Int) + lens ns = cnt + ((r.length : Int) + lens ns) := by omega
          simp only [GoSem.forFold, hb, hidx, hg, lens, e1, e2]
        · intro l hl'
          rcases List.mem_cons.mp hl' with e | e
          · subst e; exact hrpos
          · exact hp l e

def ptsBody : List interval_IntervalPoint → Int → List interval_Interval →
    Option (GoSem.Flow (List interval_IntervalPoint) Empty) :=
  fun points listId_1 list_1 => do
    let points := (points ++ (← (interval_GetPointList list_1 listId_1)))
    pure (GoSem.Flow.next points)

def srcAllPts : Nat → LL → List interval_IntervalPoint
  | _, [] => []
  | k, l :: ls => srcPts (k : Int) l ++ srcAllPts (k + 1) ls

theorem pts_loop (ns : LL) : ∀ (k : Nat) (acc : List interval_IntervalPoint),
    GoSem.forFold ptsBody ns (k : Int) acc = some (GoSem.Flow.next (acc ++ srcAllPts k ns)) := by
  induction ns with
  | nil => intro k acc; simp [GoSem.forFold, srcAllPts]
  | cons l ls ih =>
    intro k acc
    have hb : ptsBody acc (k : Int) l = some (GoSem.Flow.next (acc ++ srcPts (k : Int) l)) := by
      simp [ptsBody, interval_GetPointList_eq, bind, Option.bind, pure]
    have hk : ((k : Int) + 1) = ((k + 1 : Nat) : Int) := by omega
    simp only [GoSem.forFold, hb, hk, ih, srcAllPts]
    simp

theorem srcAllPts_model (ns : LL) : ∀ k : Nat, (srcAllPts k ns).map toPoint = allPoints k (ns.map mp) := by
  induction ns with
  | nil => intro k; rfl
  | cons l ls ih =>
    intro k
    simp only [srcAllPts, List.map_append, List.map_cons, allPoints, ih, srcPts_model]
    simp [mp]

theorem srcPts_pos (lid : Int) (l : List interval_Interval) (h : ∀ iv ∈ l, MIN < iv.Start ∧ MIN < iv.End) :
    ∀ p ∈ srcPts lid l, MIN < p.Pos := by
  induction l with
  | nil => intro p hp; simp [srcPts] at hp
  | cons i l ih =>
    intro p hp
    have hi := h i (by simp)
    simp only [srcPts, List.mem_cons] at hp
    rcases hp with e | e | e
    · subst e; exact hi.1
    · subst e; exact hi.2
    · exact ih (fun j hj => h j (by simp [hj])) p e

theorem srcAllPts_ok (ns : LL) : ∀ k : Nat, PosOK ns → ∀ p ∈ srcAllPts k ns,
    (k : Int) ≤ p.ListId ∧ p.ListId < ((k + ns.length : Nat) : Int) ∧ MIN < p.Pos := by
  induction ns with
  | nil => intro k _ p hp; simp [srcAllPts] at hp
  | cons l ls ih =>
    intro k hpos p hp
    simp only [srcAllPts, List.mem_append] at hp
    rcases hp with h | h
    · have h1 := srcPts_lid (k : Int) l p h
      have h2 := srcPts_pos (k : Int) l (hpos l (by simp)) p h
      refine ⟨by omega, by simp; omega, h2⟩
    · obtain ⟨a, b, c⟩ := ih (k + 1) (fun l' hl' => hpos l' (by simp [hl'])) p h
      refine ⟨by omega, ?_, c⟩
      have : ((k + 1 + ls.length : Nat) : Int) = ((k + (l :: ls).length : Nat) : Int) := by simp; omega
      omega

def initBody : IState → Int → Option (GoSem.Flow IState Empty) :=
  fun state i => do
    let state := { state with openStartList := (← GoSem.setA (state).openStartList i (-9223372036854775808)) }
    pure (GoSem.Flow.next state)

theorem init_loop (k : Nat) : ∀ (done : Nat) (s : IState),
    s.openStartList = List.replicate done (-9223372036854775808) ++ List.replicate k 0 →
    GoSem.forCountAux initBody k (done : Int) s
      = some (GoSem.Flow.next { s with openStartList := List.replicate (done + k) (-9223372036854775808) }) := by
  induction k with
  | zero =>
    intro done s hs
    simp only [GoSem.forCountAux, Nat.add_zero]
    congr 2
    cases s
    simp_all
  | succ k ih =>
    intro done s hs
    have hset : GoSem.setA s.openStartList (done : Int) (-9223372036854775808)
        = some (List.replicate done (-9223372036854775808) ++ (-9223372036854775808) :: List.replicate k 0) := by
      rw [hs, List.replicate_succ]
      exact setA_at_len _ _ _ _ _ (by simp)
    have hb : initBody s (done : Int)
        = some (GoSem.Flow.next { s with openStartList := List.replicate (done + 1) (-9223372036854775808) ++ List.replicate k 0 }) := by
      simp only [initBody, hset, bind, Option.bind, pure]
      congr 3
      rw [List.replicate_succ']
      simp
    have hd : ((done : Int) + 1) = ((done + 1 : Nat) : Int) := by omega
    have e : done + 1 + k = done + (k + 1) := by omega
    simp only [GoSem.forCountAux, hb, hd]
    rw [ih (done + 1) _ rfl, e]

/-! ### the external sort keeps the points it is given -/

theorem insertWith_mem {α : Type} (less : List α → Int → Int → Option Bool) (x : α) (qs : List α) :
    ∀ r, SrcExt.insertWith less x qs = some r → ∀ q ∈ r, q = x ∨ q ∈ qs := by
  induction qs with
  | nil => intro r hr q hq; simp [SrcExt.insertWith] at hr; subst hr; simp at hq; exact Or.inl hq
  | cons a as ih =>
    intro r hr q hq
    simp only [SrcExt.insertWith, bind, Option.bind] at hr
    cases hl : less [a, x] 0 1 with
    | none => simp [hl] at hr
    | some b =>
      simp only [hl] at hr
      cases b with
      | false =>
        simp [pure] at hr
        subst hr
        rcases List.mem_cons.mp hq with e | e
        · exact Or.inl e
        · exact Or.inr e
      | true =>
        simp [pure] at hr
        cases hi : SrcExt.insertWith less x as with
        | none => simp [hi] at hr
        | some r' =>
          simp [hi] at hr
          subst hr
          rcases List.mem_cons.mp hq with e | e
          · exact Or.inr (by simp [e])
          · rcases ih r' hi q e with h | h
            · exact Or.inl h
            · exact Or.inr (by simp [h])

theorem sortWith_mem {α : Type} (less : List α → Int → Int → Option Bool) (l : List α) :
    ∀ r, SrcExt.sortWith less l = some r → ∀ q ∈ r, q ∈ l := by
  induction l with
  | nil => intro r hr q hq; simp [SrcExt.sortWith] at hr; subst hr; simp at hq
  | cons a as ih =>
    intro r hr q hq
    simp only [SrcExt.sortWith, bind, Option.bind] at hr
    cases hs : SrcExt.sortWith less as with
    | none => simp [hs] at hr
    | some r' =>
      simp only [hs] at hr
      rcases insertWith_mem less a r' r hr q hq with h | h
      · simp [h]
      · simp [ih r' hs q h]

/-! ### IntersectionOfSomeIntervalLists = the model's intersectMany -/

theorem toOpens_replicate (n : Nat) : toOpens (List.replicate n (-9223372036854775808)) = List.replicate n none := by
  simp [toOpens, toOpen, MIN]

/-- `IntersectionOfSomeIntervalLists`, as translated from today's source, never panics, and IS the model's
    `intersectMany` (`none` = the error return), for operands none of whose end points sits at MIN_INT64 -/
theorem interval_IntersectionOfSomeIntervalLists_eq (ls : LL) (hpos : PosOK ls) :
    ∃ r, interval_IntersectionOfSomeIntervalLists ls = some r ∧ r.map mp = intersectMany (ls.map mp) := by
  have hdef : interval_IntersectionOfSomeIntervalLists ls = (do
      let err := false
      let listCount := ((ls).length : Int)
      let intervalCount := (0 : Int)
      let r2 ← GoSem.forFold normBody ls 0 (ls, err, intervalCount)
      match r2 with
      | GoSem.Flow.ret v => pure v
      | GoSem.Flow.next (lists, _err, intervalCount) =>
        let points ← (GoSem.mkCap (α := interval_IntervalPoint) (2 * intervalCount))
        let r3 ← GoSem.forFold (ρ := Empty) ptsBody lists 0 points
        match r3 with
        | GoSem.Flow.ret v => nomatch v
        | GoSem.Flow.next points =>
          let points ← SrcExt.sortWith interval_Less points
          let state := ({ openStartList := (← (GoSem.mkLen listCount 0)), result := (← (GoSem.mkCap (α := interval_Interval) intervalCount)), hasNil := false, start := 0 } : IState)
          let r4 ← GoSem.forCount (ρ := Empty) initBody 0 listCount state
          match r4 with
          | GoSem.Flow.ret v => nomatch v
          | GoSem.Flow.next state =>
            let r5 ← GoSem.forFold swBody points 0 state
            match r5 with
            | GoSem.Flow.ret v => pure v
            | GoSem.Flow.next state => pure (some (state).result)) := rfl
  have hmodel : intersectMany (ls.map mp) = (match normAll (ls.map mp) with
      | none => none
      | some ns => (interSweep (sortPts (allPoints 0 ns)) ⟨List.replicate ns.length none, []⟩).map (fun st => st.out.reverse)) := rfl
  have h0 : ((([] : LL).length : Nat) : Int) = 0 := rfl
  rcases norm_loop ls [] 0 hpos with ⟨hmn, hg⟩ | ⟨ns, hmn, hg, hl, hp⟩
  · -- an operand that cannot be normalised: the error return
    rw [h0] at hg
    simp only [List.nil_append] at hg
    refine ⟨none, ?_, by rw [hmodel, hmn]; rfl⟩
    rw [hdef]
    simp only [bind, Option.bind, hg, pure]
  · rw [h0] at hg
    simp only [List.nil_append, Int.zero_add] at hg
    have hcnt := lens_nonneg ns
    have hn1 : ¬ (2 * lens ns < 0) := by omega
    have hn2 : ¬ (lens ns < 0) := by omega
    have hn3 : ¬ ((ls.length : Int) < 0) := by omega
    have hpl := pts_loop ns 0 []
    have hz : (((0 : Nat)) : Int) = 0 := rfl
    rw [hz] at hpl
    simp only [List.nil_append] at hpl
    -- the sorted points
    have hok := srcAllPts_ok ns 0 hp
    obtain ⟨sp, hs1, hs2, _⟩ := sortWith_eq (srcAllPts 0 ns) (fun q hq => by have := (hok q hq).1; omega)
    have hspmem := sortWith_mem interval_Less (srcAllPts 0 ns) sp hs1
    -- the initial state
    have hinit := init_loop ls.length 0
      ({ openStartList := List.replicate ls.length 0, result := [], hasNil := false, start := 0 } : IState) (by simp)
    have hfc : GoSem.forCount (ρ := Empty) initBody 0 (ls.length : Int)
        ({ openStartList := List.replicate ls.length 0, result := [], hasNil := false, start := 0 } : IState)
        = some (GoSem.Flow.next ({ openStartList := List.replicate ls.length (-9223372036854775808), result := [], hasNil := false, start := 0 } : IState)) := by
      unfold GoSem.forCount
      have : ((ls.length : Int) - 0).toNat = ls.length := by omega
      rw [this]
      have := hinit
      simp only [Nat.zero_add] at this
      exact this
    -- the sweep
    have hrel : IRel ({ openStartList := List.replicate ls.length (-9223372036854775808), result := [], hasNil := false, start := 0 } : IState)
        ⟨List.replicate ns.length none, []⟩ := by
      refine ⟨?_, rfl⟩
      show List.replicate ns.length none = toOpens (List.replicate ls.length (-9223372036854775808))
      rw [toOpens_replicate, hl]
    have hptok : ∀ p ∈ sp, PtOK (({ openStartList := List.replicate ls.length (-9223372036854775808), result := [], hasNil := false, start := 0 } : IState).openStartList.length) p := by
      intro p hpm
      obtain ⟨a, b, c⟩ := hok p (hspmem p hpm)
      refine ⟨by omega, ?_, c⟩
      simp only [List.length_replicate]
      have : ((0 + ns.length : Nat) : Int) = (ls.length : Int) := by simp [hl]
      omega
    have hge : ∀ x ∈ ({ openStartList := List.replicate ls.length (-9223372036854775808), result := [], hasNil := false, start := 0 } : IState).openStartList, MIN ≤ x := by
      intro x hx
      simp only [List.mem_replicate] at hx
      rw [hx.2]; decide
    have hsw := sw_loop sp _ ⟨List.replicate ns.length none, []⟩ 0 hrel hptok hge
    rw [hs2, srcAllPts_model] at hsw
    have hmlen : (ns.map mp).length = ns.length := by simp
    rcases hsw with ⟨hm, hgo⟩ | ⟨m', s', hm, hgo, hr⟩
    · refine ⟨none, ?_, ?_⟩
      · rw [hdef]
        simp only [bind, Option.bind, hg, pure, GoSem.mkCap, hn1, hn2, if_false, hpl, hs1, GoSem.mkLen, hn3,
          Int.toNat_natCast, hfc, hgo]
      · rw [hmodel, hmn]
        simp only [hmlen, hm]
        rfl
    · refine ⟨some s'.result, ?_, ?_⟩
      · rw [hdef]
        simp only [bind, Option.bind, hg, pure, GoSem.mkCap, hn1, hn2, if_false, hpl, hs1, GoSem.mkLen, hn3,
          Int.toNat_natCast, hfc, hgo]
      · rw [hmodel, hmn]
        simp only [hmlen, hm]
        simp [hr.2, mp]

/-- the two-list method `IntervalList.Intersection` -/
theorem interval_Intersection_eq (a b : List interval_Interval) (hpos : PosOK [a, b]) :
    ∃ r, interval_Intersection a b = some r ∧ r.map mp = intersectMany [mp a, mp b] := by
  obtain ⟨r, h1, h2⟩ := interval_IntersectionOfSomeIntervalLists_eq [a, b] hpos
  exact ⟨r, by simpa [interval_Intersection, bind, Option.bind] using h1, by simpa using h2⟩

/-! ### C04 restated about the translated code -/

/-- C04 for today's source of `IntersectionOfSomeIntervalLists` (modulo the translator, `sort.Sort = sortWith`, and no
    end point at MIN_INT64): for any number (≥ 1) of well-formed operands the call returns a list (no error, no
    panic) that is canonical and contains exactly the instants that belong to every operand; and any other family of
    well-formed operands with the same intersection — other operand order, other grouping, duplicates — gives the very
    same list -/
theorem src_intersection_C04 (ls : LL) (hne : ls ≠ []) (hwf : ∀ l ∈ ls, ∀ iv ∈ l, WFI (toIv iv)) (hpos : PosOK ls) :
    ∃ r, interval_IntersectionOfSomeIntervalLists ls = some (some r) ∧ Canonical (mp r) ∧
      (∀ h, srcMem h r ↔ ∀ l ∈ ls, srcMem h l) ∧
      (∀ ls2 r2, ls2 ≠ [] → (∀ l ∈ ls2, ∀ iv ∈ l, WFI (toIv iv)) → PosOK ls2 →
        interval_IntersectionOfSomeIntervalLists ls2 = some (some r2) →
        (∀ h, (∀ l ∈ ls, srcMem h l) ↔ (∀ l ∈ ls2, srcMem h l)) → r2 = r) := by
  have wf' : ∀ (xs : LL), (∀ l ∈ xs, ∀ iv ∈ l, WFI (toIv iv)) → ∀ l ∈ xs.map mp, ∀ i ∈ l, WFI i := by
    intro xs h l hl i hi
    obtain ⟨l0, hl0, rfl⟩ := List.mem_map.mp hl
    obtain ⟨j, hj, rfl⟩ := List.mem_map.mp hi
    exact h l0 hl0 j hj
  have mem' : ∀ (xs : LL) (h : Int), (∀ l ∈ xs.map mp, memL h l) ↔ (∀ l ∈ xs, srcMem h l) := by
    intro xs h
    constructor
    · intro a l hl; exact a (mp l) (List.mem_map_of_mem hl)
    · intro a l hl
      obtain ⟨l0, hl0, rfl⟩ := List.mem_map.mp hl
      exact a l0 hl0
  have hne' : ls.map mp ≠ [] := by simpa using hne
  obtain ⟨rm, hrm, hcan, hmem⟩ := Props.C04_inter_main (ls.map mp) hne' (wf' ls hwf)
  obtain ⟨r0, h0, hm0⟩ := interval_IntersectionOfSomeIntervalLists_eq ls hpos
  rw [hrm] at hm0
  cases r0 with
  | none => simp at hm0
  | some r =>
    have hr : mp r = rm := by simpa using hm0
    refine ⟨r, h0, hr ▸ hcan, ?_, ?_⟩
    · intro h
      unfold srcMem
      show memL h (mp r) ↔ _
      rw [hr, hmem h, mem' ls h]
      rfl
    · intro ls2 r2 hne2 hwf2 hpos2 h2 heq
      obtain ⟨r2', h2', hm2⟩ := interval_IntersectionOfSomeIntervalLists_eq ls2 hpos2
      rw [h2] at h2'
      have e2 : r2' = some r2 := (Option.some.inj h2').symm
      subst e2
      have hi2 : intersectMany (ls2.map mp) = some (mp r2) := by rw [← hm2]; rfl
      have := Props.C04_inter_depends_on_sets (ls.map mp) (ls2.map mp) hne' (by simpa using hne2) (wf' ls hwf) (wf' ls2 hwf2)
        (fun h => by rw [mem' ls h, mem' ls2 h]; exact heq h) rm (mp r2) hrm hi2
      exact toIv_inj _ _ (by show mp r2 = mp r; rw [hr, this])

-- the translated code evaluated on concrete operands
example : interval_IntersectionOfSomeIntervalLists [[⟨0, 5, false⟩, ⟨7, 9, true⟩], [⟨3, 8, false⟩], [⟨4, 4, true⟩, ⟨7, 20, false⟩]]
    = some (some [⟨4, 4, true⟩, ⟨7, 8, false⟩]) := by decide
example : interval_Intersection [⟨0, 3, true⟩] [⟨3, 5, false⟩] = some (some [⟨3, 3, true⟩]) := by decide

/-! ### why the hypothesis `PosOK`: the excluded point, evaluated

    An operand that starts AT MIN_INT64 writes the sentinel itself into its slot, which the sweep reads as "closed":
    the translated code returns the empty list where the model (and set theory) say `[MIN, 5)`. The real code does the
    same (`[MinInt64, 5).Intersection([MinInt64, 5))` prints the empty list; run in the fourth session). It lies far
    outside C04's stated domain (|x| < 2^62) and is recorded in DESIGN as the boundary of the tie, not as a finding. -/
example : interval_IntersectionOfSomeIntervalLists
    [[⟨-9223372036854775808, 5, false⟩], [⟨-9223372036854775808, 5, false⟩]] = some (some []) := by decide
example : intersectMany [[⟨-9223372036854775808, 5, false⟩], [⟨-9223372036854775808, 5, false⟩]]
    = some [⟨-9223372036854775808, 5, false⟩] := by decide

end Starcal.SrcTie
