import Starcal.Gen.Src
import Starcal.PHMS
import Starcal.TextMore
import Starcal.Rules
/-! Source tie, validity checks: the range checks the rule checkers and text parsers rest on — `toUint8` (the saturating
    narrowing of a parsed field), `HMS.IsValid`, `Date.IsValid`, `MonthListIsValid`, `DayListIsValid`,
    `WeekDayListIsValid` — as translated from today's source, are the model's. -/
namespace Starcal.SrcTie
open Starcal Starcal.Gen.Src Starcal.Rules

/-- a `for _, v := range xs { if !ok(v) { return false } }; return true` loop is `xs.all ok` -/
theorem forRange_all (l : List Int) (ok : Int → Bool) :
    GoSem.forRange l (fun v => if (!ok v) = true then some (some false) else some none) =
      some (if l.all ok then none else some false) := by
  induction l with
  | nil => simp [GoSem.forRange]
  | cons x xs ih =>
    unfold GoSem.forRange
    cases h : ok x
    · simp [h]
    · simp only [h, Bool.not_true, Bool.false_eq_true, if_false, List.all_cons, Bool.true_and]
      exact ih

theorem utils_MonthListIsValid_eq (l : List Int) :
    utils_MonthListIsValid l = some (l.all (fun v => decide (v > 0) && decide (v < 13))) := by
  simp only [utils_MonthListIsValid, bind, Option.bind, pure]
  rw [forRange_all l (fun v => decide (v > 0) && decide (v < 13))]
  cases l.all (fun v => decide (v > 0) && decide (v < 13)) <;> rfl

theorem utils_DayListIsValid_eq (l : List Int) :
    utils_DayListIsValid l = some (l.all (fun v => decide (v > 0) && decide (v < 40))) := by
  simp only [utils_DayListIsValid, bind, Option.bind, pure]
  rw [forRange_all l (fun v => decide (v > 0) && decide (v < 40))]
  cases l.all (fun v => decide (v > 0) && decide (v < 40)) <;> rfl

theorem utils_WeekDayListIsValid_eq (l : List Int) :
    utils_WeekDayListIsValid l = some (l.all (fun v => decide (v ≥ 0) && decide (v < 7))) := by
  simp only [utils_WeekDayListIsValid, bind, Option.bind, pure]
  rw [forRange_all l (fun v => decide (v ≥ 0) && decide (v < 7))]
  cases l.all (fun v => decide (v ≥ 0) && decide (v < 7)) <;> rfl

/-- the checkers of the six range-list rule types and of weekDay are these loops -/
theorem checks_are_source (l : List Int) :
    checkWith "month" (.intList l) = .ok ((utils_MonthListIsValid l).getD false) ∧
    checkWith "ex_month" (.intList l) = .ok ((utils_MonthListIsValid l).getD false) ∧
    checkWith "day" (.intList l) = .ok ((utils_DayListIsValid l).getD false) ∧
    checkWith "ex_day" (.intList l) = .ok ((utils_DayListIsValid l).getD false) ∧
    checkWith "weekDay" (.intList l) = .ok ((utils_WeekDayListIsValid l).getD false) := by
  rw [utils_MonthListIsValid_eq, utils_DayListIsValid_eq, utils_WeekDayListIsValid_eq]
  simp [checkWith]

/-- the saturating narrowing of a parsed field -/
theorem lib_toUint8_eq (v : Int) : lib_toUint8 v = some (narrowNew v) := by
  simp only [lib_toUint8, narrowNew, pure]
  by_cases h : v < 0 ∨ v > 255
  · rcases h with h | h <;> simp [h]
  · have h1 : ¬ v < 0 := by omega
    have h2 : ¬ v > 255 := by omega
    have : GoSem.u8 v = v := GoSem.u8_id (by omega) (by omega)
    simp [h, h1, h2, this]

theorem lib_HMS_IsValid_eq (h m s : Int) : lib_HMS_IsValid ⟨h, m, s⟩ = some (HMS.isValid ⟨h, m, s⟩) := by
  simp only [lib_HMS_IsValid, HMS.isValid, pure]

theorem lib_Date_IsValid_eq (y m d : Int) : lib_Date_IsValid ⟨y, m, d⟩ = some (DateV.isValid ⟨y, m, d⟩) := by
  simp only [lib_Date_IsValid, DateV.isValid, pure]

/-- `WeekMonth.IsValid` (event/rules_lib), the range check of the JSON-valued rule type, is the model's `WM.isValid` -/
theorem rules_WeekMonth_IsValid_eq (wi wd m : Int) :
    rules_WeekMonth_IsValid ⟨wi, wd, m⟩ = some (WM.isValid wi wd m) := by
  simp only [rules_WeekMonth_IsValid, WM.isValid, pure]

/-- the composite validity checks the rule checkers of `start` / `end` (DateHMS), `dayTimeRange` (HMSRange) and the
    days-plus-time form (DHMS) call are the conjunctions the model's `check` uses -/
theorem lib_DateHMS_IsValid_eq (y m d h mi s : Int) :
    lib_DateHMS_IsValid ⟨⟨y, m, d⟩, ⟨h, mi, s⟩⟩ = some (DateV.isValid ⟨y, m, d⟩ && HMS.isValid ⟨h, mi, s⟩) := by
  simp only [lib_DateHMS_IsValid, lib_Date_IsValid_eq, lib_HMS_IsValid_eq, bind, Option.bind, pure]
  cases DateV.isValid ⟨y, m, d⟩ <;> simp

theorem lib_HMSRange_IsValid_eq (h1 m1 s1 h2 m2 s2 : Int) :
    lib_HMSRange_IsValid ⟨⟨h1, m1, s1⟩, ⟨h2, m2, s2⟩⟩ = some (HMS.isValid ⟨h1, m1, s1⟩ && HMS.isValid ⟨h2, m2, s2⟩) := by
  simp only [lib_HMSRange_IsValid, lib_HMS_IsValid_eq, bind, Option.bind, pure]
  cases HMS.isValid ⟨h1, m1, s1⟩ <;> simp

theorem lib_DHMS_IsValid_eq (days h m s : Int) :
    lib_DHMS_IsValid ⟨⟨h, m, s⟩, days⟩ = some (HMS.isValid ⟨h, m, s⟩) := by
  simp only [lib_DHMS_IsValid, lib_HMS_IsValid_eq]

end Starcal.SrcTie
