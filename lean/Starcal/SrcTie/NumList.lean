import Starcal.Gen.Src
import Starcal.NumList
/-! Source tie, interval.Extract and interval.IntervalListByNumList (nested range / counted loops over slices), as
    translated from today's source: they are the model's `extract` and `byNumList` of NumList.lean, and C13's clause
    `Extract(IntervalListByNumList(ns, k)) = ns` holds of the translated code itself. -/
namespace Starcal.SrcTie
open Starcal Starcal.Gen.Src Starcal.NumList

/-- an interval of the translated code as an interval of NumList.lean -/
def toNl (i : interval_Interval) : NumList.Interval := ⟨i.Start, i.End, i.ClosedEnd⟩

/-! ### Extract -/

def exCntBody : Int → Int → interval_Interval → Option (GoSem.Flow Int Empty) :=
  fun count _i interval => do
    let count := (count + ((interval).End - (interval).Start))
    if (interval).ClosedEnd then
      let count := (count + 1)
      pure (GoSem.Flow.next count)
    else
      pure (GoSem.Flow.next count)

def exInner : List Int → Int → Option (GoSem.Flow (List Int) Empty) :=
  fun extList pos => do
    let extList := (extList ++ [pos])
    pure (GoSem.Flow.next extList)

def exBody : List Int → Int → interval_Interval → Option (GoSem.Flow (List Int) Empty) :=
  fun extList _i interval_1 => do
    let _r2 ← GoSem.forCount (ρ := Empty) exInner (interval_1).Start (interval_1).End extList
    match _r2 with
    | GoSem.Flow.ret _v => nomatch _v
    | GoSem.Flow.next extList =>
      if (interval_1).ClosedEnd then
        let extList := (extList ++ [(interval_1).End])
        pure (GoSem.Flow.next extList)
      else
        pure (GoSem.Flow.next extList)

def total : List interval_Interval → Int
  | [] => 0
  | i :: l => (i.End - i.Start) + (if i.ClosedEnd then 1 else 0) + total l

theorem total_nonneg (l : List interval_Interval) (h : ∀ i ∈ l, i.Start ≤ i.End) : 0 ≤ total l := by
  induction l with
  | nil => decide
  | cons i l ih =>
    have h1 := h i (by simp)
    have h2 := ih (fun j hj => h j (by simp [hj]))
    simp only [total]
    split <;> omega

theorem exCnt_loop (l : List interval_Interval) : ∀ (i c : Int),
    GoSem.forFold exCntBody l i c = some (GoSem.Flow.next (c + total l)) := by
  induction l with
  | nil => intro i c; simp [GoSem.forFold, total]
  | cons x xs ih =>
    intro i c
    cases hc : x.ClosedEnd
    · have hb : exCntBody c i x = some (GoSem.Flow.next (c + (x.End - x.Start))) := by
        simp [exCntBody, hc, pure]
      simp only [GoSem.forFold, hb, ih, total, hc]
      congr 2; simp; omega
    · have hb : exCntBody c i x = some (GoSem.Flow.next (c + (x.End - x.Start) + 1)) := by
        simp [exCntBody, hc, pure]
      simp only [GoSem.forFold, hb, ih, total, hc]
      congr 2; simp; omega

theorem exInner_loop (n : Nat) : ∀ (a : Int) (acc : List Int),
    GoSem.forCountAux exInner n a acc = some (GoSem.Flow.next (acc ++ upFrom a n)) := by
  induction n with
  | zero => intro a acc; simp [GoSem.forCountAux, upFrom]
  | succ n ih =>
    intro a acc
    have hb : exInner acc a = some (GoSem.Flow.next (acc ++ [a])) := by simp [exInner, pure]
    simp only [GoSem.forCountAux, hb, ih, upFrom]
    simp

theorem ex_loop (l : List interval_Interval) : ∀ (i : Int) (acc : List Int),
    GoSem.forFold exBody l i acc = some (GoSem.Flow.next (acc ++ extract (l.map toNl))) := by
  induction l with
  | nil => intro i acc; simp [GoSem.forFold, extract]
  | cons x xs ih =>
    intro i acc
    cases hc : x.ClosedEnd
    · have hb : exBody acc i x = some (GoSem.Flow.next (acc ++ upFrom x.Start (x.End - x.Start).toNat)) := by
        simp [exBody, GoSem.forCount, exInner_loop, hc, bind, Option.bind, pure]
      simp only [GoSem.forFold, hb, ih, List.map_cons, extract, toNl, hc]
      simp
    · have hb : exBody acc i x = some (GoSem.Flow.next (acc ++ upFrom x.Start (x.End - x.Start).toNat ++ [x.End])) := by
        simp [exBody, GoSem.forCount, exInner_loop, hc, bind, Option.bind, pure]
      simp only [GoSem.forFold, hb, ih, List.map_cons, extract, toNl, hc]
      simp

/-- `IntervalList.Extract`, as translated from today's source, on a list whose intervals have Start ≤ End (otherwise
    the capacity handed to `make` may be negative and Go panics, and so does the translation) is the model's `extract` -/
theorem interval_Extract_eq (l : List interval_Interval) (h : ∀ i ∈ l, i.Start ≤ i.End) :
    interval_Extract l = some (extract (l.map toNl)) := by
  have hdef : interval_Extract l = (do
      let r1 ← GoSem.forFold exCntBody l 0 (0 : Int)
      match r1 with
      | GoSem.Flow.ret v => nomatch v
      | GoSem.Flow.next count =>
        let extList ← GoSem.mkCap (α := Int) count
        let r3 ← GoSem.forFold exBody l 0 extList
        match r3 with
        | GoSem.Flow.ret v => nomatch v
        | GoSem.Flow.next extList => pure extList) := rfl
  have hn : ¬ (total l < 0) := by have := total_nonneg l h; omega
  rw [hdef]
  simp [exCnt_loop, GoSem.mkCap, hn, ex_loop, bind, Option.bind, pure]

/-! ### IntervalListByNumList -/

def singles (l : List Int) : List interval_Interval := l.map (fun x => { Start := x, End := x, ClosedEnd := true })

def bnInner : List interval_Interval → Int → Int → Option (GoSem.Flow (List interval_Interval) Empty) :=
  fun list _i x => do
    let list := (list ++ [({ Start := x, End := x, ClosedEnd := true } : interval_Interval)])
    pure (GoSem.Flow.next list)

theorem bnInner_loop (l : List Int) : ∀ (i : Int) (acc : List interval_Interval),
    GoSem.forFold bnInner l i acc = some (GoSem.Flow.next (acc ++ singles l)) := by
  induction l with
  | nil => intro i acc; simp [GoSem.forFold, singles]
  | cons x xs ih =>
    intro i acc
    have hb : bnInner acc i x = some (GoSem.Flow.next (acc ++ [{ Start := x, End := x, ClosedEnd := true }])) := by
      simp [bnInner, pure]
    simp only [GoSem.forFold, hb, ih, singles]
    simp

/-- what the code appends for a finished run, in the code's own structures -/
def srcFlush (k : Int) (tmp : List Int) : List interval_Interval :=
  match tmp.head?, tmp.getLast? with
  | some t, some l => if (tmp.length : Int) > k then [{ Start := t, End := l, ClosedEnd := true }] else singles tmp
  | _, _ => []

theorem srcFlush_model (k : Nat) (tmp : List Int) : (srcFlush (k : Int) tmp).map toNl = flush k tmp := by
  unfold srcFlush flush
  cases h1 : tmp.head? <;> cases h2 : tmp.getLast? <;> simp only [List.map_nil]
  by_cases hk : tmp.length > k
  · have : ((tmp.length : Int) > (k : Int)) := by omega
    simp [hk, this, toNl]
  · have : ¬ ((tmp.length : Int) > (k : Int)) := by omega
    simp [hk, this, singles, toNl]

/-- the test `len(tmpNums) > 0 && num-tmpNums[len(tmpNums)-1] != 1` -/
def bnCond (tmpNums : List Int) (num : Int) : Option Bool :=
  (do if (decide (((tmpNums).length : Int) > 0)) then pure (decide ((num - (← (GoSem.idx tmpNums (((tmpNums).length : Int) - 1)))) ≠ 1)) else pure false)

/-- what the code does with a finished run: both arms of `if len(tmpNums) > minCount` -/
def flushCode (minCount : Int) (list : List interval_Interval) (tmpNums : List Int) : Option (List interval_Interval) :=
  (do
    if (decide (((tmpNums).length : Int) > minCount)) then
      let list := (list ++ [({ Start := (← (GoSem.idx tmpNums 0)), End := (← (GoSem.idx tmpNums (((tmpNums).length : Int) - 1))), ClosedEnd := true } : interval_Interval)])
      pure list
    else
      let _r2 ← GoSem.forFold (ρ := Empty) bnInner tmpNums 0 list
      match _r2 with
      | GoSem.Flow.ret _v => nomatch _v
      | GoSem.Flow.next list =>
        pure list
    )

def bnBody (minCount : Int) : (List interval_Interval × List Int) → Int → Int →
    Option (GoSem.Flow (List interval_Interval × List Int) Empty) :=
  fun (list, tmpNums) _i num => do
    let _c1 ← bnCond tmpNums num
    let (list, tmpNums) ← (do
      if _c1 then
        let list ← flushCode minCount list tmpNums
        let tmpNums := ([] : (List Int))
        pure (list, tmpNums)
      else
        pure (list, tmpNums)
      )
    let tmpNums := (tmpNums ++ [num])
    pure (GoSem.Flow.next (list, tmpNums))

theorem idx_last (tmp : List Int) (l : Int) (h : tmp.getLast? = some l) :
    GoSem.idx tmp ((tmp.length : Int) - 1) = some l := by
  rcases List.eq_nil_or_concat tmp with hs | ⟨init, top, hs⟩
  · subst hs; simp at h
  · rw [List.concat_eq_append] at hs
    subst hs
    have : top = l := by simpa using h
    subst this
    have h1 : (0 : Int) ≤ ((init ++ [top]).length : Int) - 1 := by simp
    have h3 : (((init ++ [top]).length : Int) - 1).toNat = init.length := by simp
    simp [GoSem.idx, h1, h3]

theorem idx_head (tmp : List Int) (t : Int) (h : tmp.head? = some t) : GoSem.idx tmp 0 = some t := by
  cases tmp with
  | nil => simp at h
  | cons a as => simp at h; subst h; simp [GoSem.idx]

/-- flushing a non-empty run -/
theorem flush_code (k : Int) (list : List interval_Interval) (tmp : List Int) (hne : tmp ≠ []) :
    flushCode k list tmp = some (list ++ srcFlush k tmp) := by
  obtain ⟨t, ht⟩ : ∃ t, tmp.head? = some t := by
    cases tmp with
    | nil => exact absurd rfl hne
    | cons a as => exact ⟨a, rfl⟩
  obtain ⟨l, hl⟩ : ∃ l, tmp.getLast? = some l := by
    cases h : tmp.getLast? with
    | none => simp at h; exact absurd h hne
    | some l => exact ⟨l, rfl⟩
  by_cases hk : (tmp.length : Int) > k
  · simp [flushCode, hk, idx_head tmp t ht, idx_last tmp l hl, srcFlush, ht, hl, bind, Option.bind, pure]
  · simp [flushCode, hk, bnInner_loop, srcFlush, ht, hl, bind, Option.bind, pure]

theorem bnCond_nil (n : Int) : bnCond [] n = some false := by simp [bnCond, pure]

theorem bnCond_last (tmp : List Int) (last n : Int) (h : tmp.getLast? = some last) :
    bnCond tmp n = some (decide (n - last ≠ 1)) := by
  have hne : tmp ≠ [] := by intro e; subst e; simp at h
  simp [bnCond, hne, idx_last tmp last h, bind, Option.bind, pure]

/-- the loop of IntervalListByNumList against the model's `byNumAux` (in the code's structures) -/
def srcByNumAux (k : Int) : List Int → List Int → List interval_Interval → List interval_Interval
  | [], tmp, acc => acc ++ srcFlush k tmp
  | n :: ns, tmp, acc =>
    match tmp.getLast? with
    | some last => if n - last ≠ 1 then srcByNumAux k ns [n] (acc ++ srcFlush k tmp)
                   else srcByNumAux k ns (tmp ++ [n]) acc
    | none => srcByNumAux k ns (tmp ++ [n]) acc

theorem srcByNumAux_model (k : Nat) (ns : List Int) : ∀ (tmp : List Int) (acc : List interval_Interval),
    (srcByNumAux (k : Int) ns tmp acc).map toNl = byNumAux k ns tmp (acc.map toNl) := by
  induction ns with
  | nil => intro tmp acc; simp [srcByNumAux, byNumAux, srcFlush_model]
  | cons n ns ih =>
    intro tmp acc
    unfold srcByNumAux byNumAux
    cases h : tmp.getLast? with
    | none => simp only; exact ih _ _
    | some last =>
      simp only
      by_cases hx : n - last ≠ 1
      · rw [if_pos hx, if_pos hx, ih]
        simp [srcFlush_model]
      · rw [if_neg hx, if_neg hx]
        exact ih _ _

theorem bn_loop (k : Int) (ns : List Int) : ∀ (i : Int) (tmp : List Int) (acc : List interval_Interval),
    ∃ tmp' acc', GoSem.forFold (bnBody k) ns i (acc, tmp) = some (GoSem.Flow.next (acc', tmp')) ∧
      acc' ++ srcFlush k tmp' = srcByNumAux k ns tmp acc := by
  induction ns with
  | nil => intro i tmp acc; exact ⟨tmp, acc, rfl, rfl⟩
  | cons n ns ih =>
    intro i tmp acc
    cases h : tmp.getLast? with
    | none =>
      have he : tmp = [] := by simpa using h
      subst he
      have hb : bnBody k (acc, []) i n = some (GoSem.Flow.next (acc, [n])) := by
        simp [bnBody, bnCond_nil, bind, Option.bind, pure]
      obtain ⟨tmp', acc', h1, h2⟩ := ih (i + 1) [n] acc
      refine ⟨tmp', acc', by simp only [GoSem.forFold, hb, h1], ?_⟩
      rw [h2]
      simp [srcByNumAux]
    | some last =>
      have hne : tmp ≠ [] := by intro e; subst e; simp at h
      by_cases hx : n - last ≠ 1
      · have hb : bnBody k (acc, tmp) i n = some (GoSem.Flow.next (acc ++ srcFlush k tmp, [n])) := by
          simp [bnBody, bnCond_last tmp last n h, hx, flush_code k acc tmp hne, bind, Option.bind, pure]
        obtain ⟨tmp', acc', h1, h2⟩ := ih (i + 1) [n] (acc ++ srcFlush k tmp)
        refine ⟨tmp', acc', by simp only [GoSem.forFold, hb, h1], ?_⟩
        rw [h2]
        simp [srcByNumAux, h, hx]
      · have hb : bnBody k (acc, tmp) i n = some (GoSem.Flow.next (acc, tmp ++ [n])) := by
          simp [bnBody, bnCond_last tmp last n h, hx, bind, Option.bind, pure]
        obtain ⟨tmp', acc', h1, h2⟩ := ih (i + 1) (tmp ++ [n]) acc
        refine ⟨tmp', acc', by simp only [GoSem.forFold, hb, h1], ?_⟩
        rw [h2]
        simp [srcByNumAux, h, hx]

/-- `IntervalListByNumList`, as translated from today's source, never panics and is the model's `byNumList` for every
    list of integers and every threshold ≥ 0 -/
theorem interval_IntervalListByNumList_eq (nums : List Int) (k : Nat) :
    ∃ r, interval_IntervalListByNumList nums (k : Int) = some r ∧ r.map toNl = byNumList nums k := by
  have hdef : interval_IntervalListByNumList nums (k : Int) = (do
      let list ← GoSem.mkCap (α := interval_Interval) ((nums).length : Int)
      let tmpNums ← GoSem.mkCap (α := Int) ((nums).length : Int)
      let r3 ← GoSem.forFold (bnBody (k : Int)) nums 0 (list, tmpNums)
      match r3 with
      | GoSem.Flow.ret v => nomatch v
      | GoSem.Flow.next (list, tmpNums) =>
        let list ← (do
          if (decide (((tmpNums).length : Int) > 0)) then flushCode (k : Int) list tmpNums
          else pure list)
        pure list) := rfl
  obtain ⟨tmp', acc', h1, h2⟩ := bn_loop (k : Int) nums 0 [] []
  have hn : ¬ ((nums.length : Int) < 0) := by omega
  refine ⟨acc' ++ srcFlush (k : Int) tmp', ?_, ?_⟩
  · rw [hdef]
    simp only [GoSem.mkCap, hn, if_false, bind, Option.bind, h1]
    by_cases he : tmp' = []
    · subst he
      simp [srcFlush, pure]
    · simp [he, flush_code (k : Int) acc' tmp' he, pure]
  · rw [h2, srcByNumAux_model]
    rfl

/-! ### the grouped list is well-formed (every run is `t, t+1, …`), so `Extract` accepts it -/

theorem flush_wf (k : Nat) (t : Int) (n : Nat) : ∀ i ∈ flush k (upFrom t n), i.start ≤ i.stop := by
  cases n with
  | zero => simp [flush, upFrom]
  | succ n =>
    unfold flush
    have h1 : (upFrom t (n + 1)).head? = some t := by simp [upFrom]
    have h2 : (upFrom t (n + 1)).getLast? = some (t + n) := by simp [upFrom_snoc]
    rw [h1, h2]
    simp only
    split
    · intro i hi
      simp only [List.mem_singleton] at hi
      subst hi
      show t ≤ t + (n : Int)
      omega
    · intro i hi
      obtain ⟨x, _, rfl⟩ := List.mem_map.mp hi
      exact Int.le_refl _

theorem byNumAux_wf (k : Nat) (ns : List Int) : ∀ (t : Int) (n : Nat) (acc : List NumList.Interval),
    (∀ i ∈ acc, i.start ≤ i.stop) → ∀ i ∈ byNumAux k ns (upFrom t n) acc, i.start ≤ i.stop := by
  induction ns with
  | nil =>
    intro t n acc hacc i hi
    simp only [byNumAux, List.mem_append] at hi
    rcases hi with h | h
    · exact hacc i h
    · exact flush_wf k t n i h
  | cons x ns ih =>
    intro t n acc hacc
    cases n with
    | zero =>
      have e : byNumAux k (x :: ns) (upFrom t 0) acc = byNumAux k ns (upFrom x 1) acc := by
        simp [byNumAux, upFrom]
      rw [e]
      exact ih x 1 acc hacc
    | succ n =>
      have hl : (upFrom t (n + 1)).getLast? = some (t + n) := by simp [upFrom_snoc]
      unfold byNumAux
      rw [hl]
      simp only
      by_cases hx : x - (t + n) = 1
      · simp only [hx, ne_eq, not_true_eq_false, if_false]
        have e : upFrom t (n + 1) ++ [x] = upFrom t (n + 1 + 1) := by
          rw [upFrom_snoc t (n + 1)]
          have : x = t + ((n + 1 : Nat) : Int) := by simp; omega
          rw [this]
        rw [e]
        exact ih t (n + 1 + 1) acc hacc
      · simp only [hx, ne_eq, not_false_eq_true, if_true]
        have e : ([x] : List Int) = upFrom x 1 := by simp [upFrom]
        rw [e]
        apply ih x 1
        intro i hi
        rcases List.mem_append.mp hi with h | h
        · exact hacc i h
        · exact flush_wf k t (n + 1) i h

/-- C13 for today's source: grouping a list of integers into intervals and expanding it again returns the list, for
    every list and every threshold (`Extract` does not panic on the grouped list) -/
theorem src_extract_byNumList (nums : List Int) (k : Nat) :
    ∃ r, interval_IntervalListByNumList nums (k : Int) = some r ∧ interval_Extract r = some nums := by
  obtain ⟨r, h1, h2⟩ := interval_IntervalListByNumList_eq nums k
  refine ⟨r, h1, ?_⟩
  have hwf : ∀ i ∈ r, i.Start ≤ i.End := by
    intro i hi
    have hm : toNl i ∈ byNumList nums k := h2 ▸ List.mem_map_of_mem hi
    have := byNumAux_wf k nums 0 0 [] (by simp) (toNl i) (by simpa [byNumList, upFrom] using hm)
    simpa [toNl] using this
  rw [interval_Extract_eq r hwf, h2, extract_byNumList]

example : interval_IntervalListByNumList [1, 2, 3, 5, 7, 8] 2 = some [⟨1, 3, true⟩, ⟨5, 5, true⟩, ⟨7, 7, true⟩, ⟨8, 8, true⟩] := by decide
example : interval_Extract [⟨1, 3, true⟩, ⟨5, 5, true⟩, ⟨7, 9, false⟩] = some [1, 2, 3, 5, 7, 8] := by decide

end Starcal.SrcTie
