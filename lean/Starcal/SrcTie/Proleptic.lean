import Starcal.SrcTie.Defs
import Starcal.Proleptic
/-! Source tie, cal_types/gregorian_proleptic: the translated source equals the hand-written model
    (`pToJd`, `pJdTo`, `pIsLeap`, `pMonthLen`: the Gregorian arithmetic under the year relabelling). -/
namespace Starcal.SrcTie
open Starcal Starcal.Gen.Src

theorem gprol_IsLeap_eq (y : Int) : gprol_IsLeap y = some (pIsLeap y) := by
  simp only [gprol_IsLeap, pIsLeap, relIn, gIsLeap, bind, Option.bind, pure]
  by_cases h : y < 1
  · simp [h, tmod_zero_iff (y + 1) 4 (by decide), tmod_zero_iff (y + 1) 100 (by decide), tmod_zero_iff (y + 1) 400 (by decide)]
  · simp [h, tmod_zero_iff y 4 (by decide), tmod_zero_iff y 100 (by decide), tmod_zero_iff y 400 (by decide)]

theorem gprol_ToJd_eq (y m d : Int) : gprol_ToJd ⟨y, m, d⟩ = some (pToJd ⟨y, m, d⟩) := by
  simp only [gprol_ToJd, pToJd, utils_Div_pos _ 4 (by decide), utils_Div_pos _ 100 (by decide),
    utils_Div_pos _ 400 (by decide), utils_Div_pos _ 5 (by decide), bind, Option.bind, pure]
  by_cases h3 : m < 3 <;> by_cases h1 : y < 1 <;> simp [h3, h1]

theorem gprol_JdTo_eq (jd : Int) :
    gprol_JdTo jd = some ⟨(pJdTo jd).year, (pJdTo jd).month, (pJdTo jd).day⟩ := by
  have hwf := gJdTo_WF jd
  unfold gWF at hwf
  have hml := gMonthLen_range (gJdTo jd).year (gJdTo jd).month hwf.1 hwf.2.1
  have key : gprol_JdTo jd =
      some ⟨relOut (gJdTo jd).year, GoSem.u8 (gJdTo jd).month, GoSem.u8 (gJdTo jd).day⟩ := by
    simp only [gprol_JdTo, gJdTo, relOut, utils_Div_pos _ 146097 (by decide), utils_Div_pos _ 4 (by decide),
      utils_Div_pos _ 1461 (by decide), utils_Div_pos _ 153 (by decide), utils_Div_pos _ 5 (by decide),
      utils_Div_pos _ 10 (by decide), SrcExt.lib_NewDate, bind, Option.bind, pure, decide_eq_true_eq, some_ite]
    rfl
  rw [key, GoSem.u8_id (by omega) (by omega), GoSem.u8_id (by omega) (by omega)]
  simp only [pJdTo]

theorem gprol_GetMonthLen_eq (y m : Int) (h1 : 1 ≤ m) (h2 : m ≤ 12) :
    gprol_GetMonthLen y m = some (pMonthLen y m) := by
  have : m = 1 ∨ m = 2 ∨ m = 3 ∨ m = 4 ∨ m = 5 ∨ m = 6 ∨ m = 7 ∨ m = 8 ∨ m = 9 ∨ m = 10 ∨ m = 11 ∨ m = 12 := by omega
  simp only [gprol_GetMonthLen, gprol_IsLeap_eq, pMonthLen, gMonthLen, pIsLeap, bind, Option.bind, pure]
  rcases this with h|h|h|h|h|h|h|h|h|h|h|h <;> subst h <;> first | decide | (cases gIsLeap (relIn y) <;> decide)

/-- the gregorian_proleptic package, as translated from today's source, IS the model configuration `calGprol` -/
theorem gprol_translates : Translates Drv.calGprol gprol_ToJd gprol_JdTo gprol_IsLeap gprol_GetMonthLen where
  jdTo_eq jd := gprol_JdTo_eq jd
  toJd_eq y m d _ _ _ _ := gprol_ToJd_eq y m d
  isLeap_eq := gprol_IsLeap_eq
  monthLen_eq := gprol_GetMonthLen_eq

end Starcal.SrcTie
