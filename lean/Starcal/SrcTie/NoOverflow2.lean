import Starcal.Gen.Src
/-! Source tie, machine integers, second part: the overflow-checked copies `f_chk` (see `SrcTie/NoOverflow.lean`) of
    the translated functions OUTSIDE the calendar packages — validity checks, time-of-day helpers, the interval point
    order, the point-list builder and the int64 stack. For each, `f_chk = f`: either no `int` arithmetic occurs at all
    (the two translations are the same term), or every intermediate value is bounded by the length of a slice / by
    the range of a `uint8` field, and a slice length fits in 62 bits. -/
namespace Starcal.SrcTie
open Starcal Starcal.Gen.Src

/-! ### no integer arithmetic at all: the checked copy is the same term -/

theorem lib_HMS_IsValid_chk_eq (h : GoSem.HMS) : lib_HMS_IsValid_chk h = lib_HMS_IsValid h := rfl
theorem lib_Date_IsValid_chk_eq (d : GoSem.Date) : lib_Date_IsValid_chk d = lib_Date_IsValid d := rfl
theorem lib_DHMS_IsValid_chk_eq (d : lib_DHMS) : lib_DHMS_IsValid_chk d = lib_DHMS_IsValid d := rfl
theorem lib_HMSRange_IsValid_chk_eq (r : lib_HMSRange) : lib_HMSRange_IsValid_chk r = lib_HMSRange_IsValid r := rfl
theorem lib_DateHMS_IsValid_chk_eq (d : lib_DateHMS) : lib_DateHMS_IsValid_chk d = lib_DateHMS_IsValid d := rfl
theorem lib_toUint8_chk_eq (v : Int) : lib_toUint8_chk v = lib_toUint8 v := rfl
theorem rules_WeekMonth_IsValid_chk_eq (w : rules_WeekMonth) : rules_WeekMonth_IsValid_chk w = rules_WeekMonth_IsValid w := rfl
theorem utils_MonthListIsValid_chk_eq (l : List Int) : utils_MonthListIsValid_chk l = utils_MonthListIsValid l := rfl
theorem utils_DayListIsValid_chk_eq (l : List Int) : utils_DayListIsValid_chk l = utils_DayListIsValid l := rfl
theorem utils_WeekDayListIsValid_chk_eq (l : List Int) : utils_WeekDayListIsValid_chk l = utils_WeekDayListIsValid l := rfl
/-- only constant divisors (3600, 60): Go's `/` and `%` by a non-zero constant other than -1 cannot overflow -/
theorem utils_GetHmsBySeconds_chk_eq (s : Int) : utils_GetHmsBySeconds_chk s = utils_GetHmsBySeconds s := rfl
theorem lib_GetFloatHour_chk_eq (h : GoSem.HMS) : lib_GetFloatHour_chk h = lib_GetFloatHour h := rfl
theorem lib_FloatHourToHMS_chk_eq (fh : Rat) : lib_FloatHourToHMS_chk fh = lib_FloatHourToHMS fh := rfl
theorem interval_Less_chk_eq (p : List interval_IntervalPoint) (i j : Int) : interval_Less_chk p i j = interval_Less p i j := rfl
theorem stack_Push_chk_eq (s : List Int) (v : Int) : stack_Push_chk s v = stack_Push s v := rfl
theorem interval_endPoint_chk_eq (st : interval_IntervalListIntersectionState) (p : interval_IntervalPoint) :
    interval_intersectionOfSomeIntervalLists_endPoint_chk st p = interval_intersectionOfSomeIntervalLists_endPoint st p := rfl

/-! ### arithmetic bounded by a `uint8` field or a slice length -/

/-- `HMS.GetTotalSeconds`: the fields are `uint8` (0..255) widened to `int`, so the sum is at most 933 555 -/
theorem lib_GetTotalSeconds_chk_eq (h : GoSem.HMS) (hh : 0 ≤ h.Hour ∧ h.Hour < 256) (hm : 0 ≤ h.Minute ∧ h.Minute < 256)
    (hs : 0 ≤ h.Second ∧ h.Second < 256) : lib_GetTotalSeconds_chk h = lib_GetTotalSeconds h := by
  unfold lib_GetTotalSeconds_chk lib_GetTotalSeconds
  simp only [bind, Option.bind, pure]
  rw [GoSem.chk64_eq (x := h.Hour * 3600) (by omega) (by omega)]
  simp only []
  rw [GoSem.chk64_eq (x := h.Minute * 60) (by omega) (by omega)]
  simp only []
  rw [GoSem.chk64_eq (x := h.Hour * 3600 + h.Minute * 60) (by omega) (by omega)]
  simp only []
  rw [GoSem.chk64_eq (by omega) (by omega)]

/-- the int64 stack's `Pop`: `len(s) - 1` fits whenever the slice length does (a Go slice has < 2^63 elements) -/
theorem stack_Pop_chk_eq (s : List Int) (hl : (s.length : Int) ≤ 9223372036854775807) : stack_Pop_chk s = stack_Pop s := by
  unfold stack_Pop_chk stack_Pop
  simp only [bind, Option.bind, pure]
  rw [GoSem.chk64_eq (x := (s.length : Int) - 1) (by omega) (by omega)]


/-- a `for i, v := range xs` loop only sees indices `start ≤ i < start + len(xs)`: two bodies that agree there
    give the same loop -/
theorem forFold_congr_idx {α σ ρ : Type} (f g : σ → Int → α → Option (GoSem.Flow σ ρ)) (l : List α) :
    ∀ (i0 : Int) (s : σ), (∀ s k x, i0 ≤ k → k < i0 + l.length → f s k x = g s k x) →
      GoSem.forFold f l i0 s = GoSem.forFold g l i0 s := by
  induction l with
  | nil => intro i0 s _; rfl
  | cons x xs ih =>
    intro i0 s h
    simp only [GoSem.forFold]
    rw [h s i0 x (by omega) (by simp only [List.length_cons]; omega)]
    cases g s i0 x with
    | none => rfl
    | some fl =>
      cases fl with
      | ret r => rfl
      | next s' =>
        exact ih (i0 + 1) s' (fun s k x h0 h1 => h s k x (by omega) (by simp only [List.length_cons]; omega))

/-- `GetPointList`: the indices `2*ii`, `2*ii+1` and the length `2*len(list)` fit whenever the list has at most
    2^62 intervals (a slice of 24-byte structures cannot be longer than 2^63/24) -/
theorem interval_GetPointList_chk_eq (list : List interval_Interval) (listId : Int)
    (hl : (list.length : Int) ≤ 4611686018427387903) :
    interval_GetPointList_chk list listId = interval_GetPointList list listId := by
  unfold interval_GetPointList_chk interval_GetPointList
  simp only [bind, Option.bind, pure]
  rw [GoSem.chk64_eq (x := 2 * (list.length : Int)) (by omega) (by omega)]
  simp only []
  cases GoSem.mkLen (2 * (list.length : Int)) ({ Pos := 0, IsEnd := false, Closed := false, ListId := 0 } : interval_IntervalPoint) with
  | none => rfl
  | some pts =>
    simp only []
    rw [forFold_congr_idx (ρ := Empty) _ _ list 0 pts]
    intro s k x h0 h1
    rw [GoSem.chk64_eq (x := 2 * k) (by omega) (by omega)]
    simp only []
    rw [GoSem.chk64_eq (x := 2 * k + 1) (by omega) (by omega)]

/-! ### `Humanize`: the counter of closed ends is at most the length, the new capacity at most twice the length -/

def humCntChk : Int → Int → interval_Interval → Option (GoSem.Flow Int Empty) := fun closedEndCount _i interval => do
      if ((interval).ClosedEnd && (decide ((interval).End > (interval).Start))) then
        let closedEndCount ← (GoSem.chk64 (closedEndCount + 1))
        pure (GoSem.Flow.next closedEndCount)
      else
        pure (GoSem.Flow.next closedEndCount)
def humCnt : Int → Int → interval_Interval → Option (GoSem.Flow Int Empty) := fun closedEndCount _i interval => do
      if ((interval).ClosedEnd && (decide ((interval).End > (interval).Start))) then
        let closedEndCount := (closedEndCount + 1)
        pure (GoSem.Flow.next closedEndCount)
      else
        pure (GoSem.Flow.next closedEndCount)

theorem humCnt_loop (l : List interval_Interval) : ∀ (i c : Int), 0 ≤ c → c + l.length ≤ 4611686018427387903 →
    ∃ c', c ≤ c' ∧ c' ≤ c + l.length ∧ GoSem.forFold humCntChk l i c = some (.next c') ∧
      GoSem.forFold humCnt l i c = some (.next c') := by
  induction l with
  | nil => intro i c _ _; exact ⟨c, by omega, by simp, rfl, rfl⟩
  | cons x xs ih =>
    intro i c h0 h1
    simp only [List.length_cons] at h1
    simp only [GoSem.forFold, humCntChk, humCnt]
    by_cases hx : (x.ClosedEnd && decide (x.End > x.Start)) = true
    · simp only [hx, if_true, bind, Option.bind, pure]
      rw [GoSem.chk64_eq (x := c + 1) (by omega) (by omega)]
      obtain ⟨c', a, b, e1, e2⟩ := ih (i + 1) (c + 1) (by omega) (by omega)
      exact ⟨c', by omega, by simp only [List.length_cons]; omega, e1, e2⟩
    · simp only [hx, pure]
      obtain ⟨c', a, b, e1, e2⟩ := ih (i + 1) c (by omega) (by omega)
      exact ⟨c', by omega, by simp only [List.length_cons]; omega, e1, e2⟩

theorem interval_Humanize_chk_eq (list : List interval_Interval) (hl : (list.length : Int) ≤ 2305843009213693951) :
    interval_Humanize_chk list = interval_Humanize list := by
  obtain ⟨c', a, b, e1, e2⟩ := humCnt_loop list 0 0 (by omega) (by omega)
  unfold interval_Humanize_chk interval_Humanize
  show (GoSem.forFold humCntChk list 0 0 >>= _) = (GoSem.forFold humCnt list 0 0 >>= _)
  rw [e1, e2]
  simp only [bind, Option.bind]
  by_cases hc : c' = 0
  · simp only [hc, decide_true, if_true]
  · simp only [hc, decide_false]
    rw [GoSem.chk64_eq (x := (list.length : Int) + c') (by omega) (by omega)]
/-- non-vacuity: a checked copy with arithmetic refuses where the arithmetic would wrap — it is not the
    unchecked copy renamed -/
example : lib_GetTotalSeconds_chk ⟨3000000000000000000, 0, 0⟩ = none := by decide
example : lib_GetTotalSeconds ⟨3000000000000000000, 0, 0⟩ = some 10800000000000000000000 := by decide

end Starcal.SrcTie
