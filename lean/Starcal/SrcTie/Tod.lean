import Starcal.SrcTie.Utils
import Starcal.SrcTie.Hijri
import Starcal.FHour
/-! Source tie, time of day (hms.go, utils/funcs.go): the translated `GetTotalSeconds`, `GetHmsBySeconds`,
    `GetFloatHour`, `FloatHourToHMS` equal the hand-written model of FHour.lean — float64 arithmetic rendered as
    exact rational arithmetic (IEEE rounding is NOT modelled) — and C18's round trips restated about the
    translated code. -/
namespace Starcal.SrcTie
open Starcal Starcal.Gen.Src Starcal.FHour Starcal.RatCeil

def toModel (x : GoSem.HMS) : HMS := ⟨x.Hour, x.Minute, x.Second⟩
def ofModel (x : HMS) : GoSem.HMS := ⟨x.hour, x.minute, x.second⟩

theorem lib_GetTotalSeconds_eq (x : GoSem.HMS) : lib_GetTotalSeconds x = some (totalSeconds (toModel x)) := by
  simp only [lib_GetTotalSeconds, totalSeconds, toModel, pure]

theorem utils_GetHmsBySeconds_eq (s : Int) (h0 : 0 ≤ s) :
    utils_GetHmsBySeconds s = some (ofModel (hmsBySeconds s)) := by
  have h1 : 0 ≤ s / 60 := Int.ediv_nonneg h0 (by decide)
  simp only [utils_GetHmsBySeconds, hmsBySeconds, ofModel, pure, GoSem.u8, tdiv_nonneg_eq h0, tmod_nonneg_eq h0,
    tmod_nonneg_eq h1]

theorem lib_GetFloatHour_eq (x : GoSem.HMS) : lib_GetFloatHour x = some (floatHour (toModel x)) := by
  simp only [lib_GetFloatHour, floatHour, toModel, pure]
  congr 1
  grind

theorem lib_FloatHourToHMS_eq (q : Rat) (h0 : 0 ≤ q) (h1 : q < 24) :
    lib_FloatHourToHMS q = some (ofModel (ofFloatHour q)) := by
  have e : q * ((3600 : Rat) / 1) + (1 : Rat) / 2 = q * 3600 + 1 / 2 := by grind
  have t0 : 0 ≤ (q * 3600 + 1 / 2).floor := by
    rw [Rat.le_floor_iff]; simp only [Rat.intCast_zero]; grind
  have t1 : (q * 3600 + 1 / 2).floor < 86401 := by
    rw [Rat.floor_lt_iff]; simp only [Rat.intCast_ofNat]; grind
  have t2 : 0 ≤ (q * 3600 + 1 / 2).floor / 60 := Int.ediv_nonneg t0 (by decide)
  simp only [lib_FloatHourToHMS, ofFloatHour, ofModel, pure, ftoi_intCast, e, tdiv_nonneg_eq t0, tmod_nonneg_eq t0,
    tmod_nonneg_eq t2, GoSem.u8]
  generalize (q * 3600 + 1 / 2).floor = t at *
  have a : t / 3600 % 256 = t / 3600 := by omega
  have b : t / 60 % 60 % 256 = t / 60 % 60 := by omega
  have c : t % 60 % 256 = t % 60 := by omega
  rw [a, b, c]

/-- C18 on the translated code: seconds -> h:m:s -> seconds, for every second of the day -/
theorem src_seconds_roundtrip (s : Int) (h0 : 0 ≤ s) (h1 : s < 86400) :
    ∃ x, utils_GetHmsBySeconds s = some x ∧ lib_GetTotalSeconds x = some s := by
  refine ⟨_, utils_GetHmsBySeconds_eq s h0, ?_⟩
  rw [lib_GetTotalSeconds_eq]
  exact congrArg some (hms_of_seconds s h0 h1).2

/-- C18 on the translated code: h:m:s -> seconds -> h:m:s, for every valid time -/
theorem src_hms_roundtrip (x : HMS) (h : valid x) :
    ∃ s, lib_GetTotalSeconds (ofModel x) = some s ∧ utils_GetHmsBySeconds s = some (ofModel x) := by
  refine ⟨totalSeconds x, lib_GetTotalSeconds_eq _, ?_⟩
  have hs : 0 ≤ totalSeconds x := by unfold totalSeconds valid at *; omega
  rw [utils_GetHmsBySeconds_eq _ hs, seconds_roundtrip x h]

/-- C18 on the translated code (exact rational arithmetic): h:m:s -> fractional hour -> h:m:s -/
theorem src_floathour_roundtrip (x : HMS) (h : valid x) :
    ∃ q, lib_GetFloatHour (ofModel x) = some q ∧ lib_FloatHourToHMS q = some (ofModel x) := by
  refine ⟨floatHour x, lib_GetFloatHour_eq _, ?_⟩
  have hq := floatHour_seconds x
  have hs0 : 0 ≤ totalSeconds x := by unfold totalSeconds valid at *; omega
  have hs1 : totalSeconds x < 86400 := by unfold totalSeconds valid at *; omega
  have c0 : ((0 : Int) : Rat) ≤ ((totalSeconds x : Int) : Rat) := Rat.intCast_le_intCast.mpr hs0
  have c1 : ((totalSeconds x : Int) : Rat) < ((86400 : Int) : Rat) := Rat.intCast_lt_intCast.mpr hs1
  simp only [Rat.intCast_zero, Rat.intCast_ofNat] at c0 c1
  rw [lib_FloatHourToHMS_eq _ (by grind) (by grind), floathour_roundtrip x h]

end Starcal.SrcTie
