import Starcal.SrcTie.Normalize
import Starcal.Human
/-! Source tie, interval.Humanize: `IntervalList.Humanize` (two range loops: count the closed ends, then rebuild the list
    with every `[a, b]` split into `[a, b)` and `[b, b]`), as translated from today's source, is the model's `humanize`
    of Human.lean — the function C13's Humanize clause is about. -/
namespace Starcal.SrcTie
open Starcal Starcal.Gen.Src Starcal.Ival

def splits (i : interval_Interval) : Bool := i.ClosedEnd && decide (i.End > i.Start)

def cnt : List interval_Interval → Int
  | [] => 0
  | i :: l => (if splits i then 1 else 0) + cnt l

theorem cnt_nonneg (l : List interval_Interval) : 0 ≤ cnt l := by
  induction l with
  | nil => decide
  | cons i l ih => simp only [cnt]; split <;> omega

def srcHum : List interval_Interval → List interval_Interval
  | [] => []
  | i :: l => if splits i then { Start := i.Start, End := i.End, ClosedEnd := false } :: { Start := i.End, End := i.End, ClosedEnd := true } :: srcHum l
              else i :: srcHum l

theorem srcHum_model (l : List interval_Interval) : (srcHum l).map toIv = humanize (l.map toIv) := by
  induction l with
  | nil => rfl
  | cons i l ih =>
    by_cases h : splits i = true
    · have h' : i.ClosedEnd = true ∧ i.Start < i.End := by
        simpa [splits] using h
      simp [srcHum, humanize, h, h', ih, toIv]
    · have h' : ¬ ((toIv i).closed = true ∧ (toIv i).stop > (toIv i).start) := by
        simpa [splits, toIv] using h
      simp [srcHum, humanize, h, h', ih]

theorem srcHum_none (l : List interval_Interval) (h : cnt l = 0) : srcHum l = l := by
  induction l with
  | nil => rfl
  | cons i l ih =>
    have hnn := cnt_nonneg l
    simp only [cnt] at h
    by_cases hs : splits i = true
    · simp [hs] at h; omega
    · simp [hs] at h
      simp [srcHum, hs, ih h]

def cntBody : Int → Int → interval_Interval → Option (GoSem.Flow Int Empty) :=
  fun closedEndCount _i interval => do
    if ((interval).ClosedEnd && (decide ((interval).End > (interval).Start))) then
      let closedEndCount := (closedEndCount + 1)
      pure (GoSem.Flow.next closedEndCount)
    else
      pure (GoSem.Flow.next closedEndCount)

def humBody : List interval_Interval → Int → interval_Interval → Option (GoSem.Flow (List interval_Interval) Empty) :=
  fun newList _i interval_1 => do
    if ((interval_1).ClosedEnd && (decide ((interval_1).End > (interval_1).Start))) then
      let newList := (newList ++ [({ Start := (interval_1).Start, End := (interval_1).End, ClosedEnd := false } : interval_Interval)])
      let newList := (newList ++ [({ Start := (interval_1).End, End := (interval_1).End, ClosedEnd := true } : interval_Interval)])
      pure (GoSem.Flow.next newList)
    else
      let newList := (newList ++ [interval_1])
      pure (GoSem.Flow.next newList)

theorem cnt_loop (l : List interval_Interval) : ∀ (i c : Int),
    GoSem.forFold cntBody l i c = some (GoSem.Flow.next (c + cnt l)) := by
  induction l with
  | nil => intro i c; simp [GoSem.forFold, cnt]
  | cons x xs ih =>
    intro i c
    by_cases hs : splits x = true
    · have hb : cntBody c i x = some (GoSem.Flow.next (c + 1)) := by
        have : (x.ClosedEnd && decide (x.End > x.Start)) = true := hs
        simp [cntBody, this, pure]
      simp only [GoSem.forFold, hb, ih, cnt, hs, if_true]
      congr 2; omega
    · have hb : cntBody c i x = some (GoSem.Flow.next c) := by
        have : (x.ClosedEnd && decide (x.End > x.Start)) = false := by simpa [splits] using hs
        simp [cntBody, this, pure]
      simp only [GoSem.forFold, hb, ih, cnt, hs]
      congr 2; simp

theorem hum_loop (l : List interval_Interval) : ∀ (i : Int) (acc : List interval_Interval),
    GoSem.forFold humBody l i acc = some (GoSem.Flow.next (acc ++ srcHum l)) := by
  induction l with
  | nil => intro i acc; simp [GoSem.forFold, srcHum]
  | cons x xs ih =>
    intro i acc
    by_cases hs : splits x = true
    · have hb : humBody acc i x = some (GoSem.Flow.next (acc ++ [{ Start := x.Start, End := x.End, ClosedEnd := false }] ++ [{ Start := x.End, End := x.End, ClosedEnd := true }])) := by
        have : (x.ClosedEnd && decide (x.End > x.Start)) = true := hs
        simp [humBody, this, pure]
      simp only [GoSem.forFold, hb, ih, srcHum, hs, if_true]
      simp
    · have hb : humBody acc i x = some (GoSem.Flow.next (acc ++ [x])) := by
        have : (x.ClosedEnd && decide (x.End > x.Start)) = false := by simpa [splits] using hs
        simp [humBody, this, pure]
      simp only [GoSem.forFold, hb, ih, srcHum, hs]
      simp

/-- `IntervalList.Humanize`, as translated from today's source, never panics and IS the model's `humanize` -/
theorem interval_Humanize_eq (l : List interval_Interval) :
    ∃ r, interval_Humanize l = some r ∧ r.map toIv = humanize (l.map toIv) := by
  have hdef : interval_Humanize l = (do
      let r1 ← GoSem.forFold cntBody l 0 (0 : Int)
      match r1 with
      | GoSem.Flow.ret v => nomatch v
      | GoSem.Flow.next closedEndCount =>
        if (decide (closedEndCount = 0)) then pure l
        else
          let newList ← GoSem.mkCap (α := interval_Interval) ((l.length : Int) + closedEndCount)
          let r2 ← GoSem.forFold humBody l 0 newList
          match r2 with
          | GoSem.Flow.ret v => nomatch v
          | GoSem.Flow.next newList => pure newList) := rfl
  have hnn := cnt_nonneg l
  rw [hdef]
  simp only [cnt_loop, bind, Option.bind, Int.zero_add]
  by_cases h0 : cnt l = 0
  · refine ⟨l, by simp [h0, pure], ?_⟩
    rw [← srcHum_model, srcHum_none l h0]
  · have hn : ¬ ((l.length : Int) + cnt l < 0) := by omega
    refine ⟨srcHum l, ?_, srcHum_model l⟩
    simp [h0, GoSem.mkCap, hn, hum_loop, pure]

/-- C13's Humanize clause for today's source: the result denotes the same set -/
theorem src_humanize_mem (l : List interval_Interval) :
    ∃ r, interval_Humanize l = some r ∧ ∀ h, srcMem h r ↔ srcMem h l := by
  obtain ⟨r, h1, h2⟩ := interval_Humanize_eq l
  refine ⟨r, h1, fun h => ?_⟩
  unfold srcMem
  rw [h2]
  exact humanize_mem _ h

example : interval_Humanize [⟨0, 3, true⟩, ⟨5, 5, true⟩, ⟨7, 9, false⟩] = some [⟨0, 3, false⟩, ⟨3, 3, true⟩, ⟨5, 5, true⟩, ⟨7, 9, false⟩] := by decide

end Starcal.SrcTie
