import Starcal.SrcTie.Defs
import Starcal.Julian
/-! Source tie, cal_types/julian: the translated source equals the hand-written model `Julian.*`. -/
namespace Starcal.SrcTie
open Starcal Starcal.Gen.Src

theorem julian_tables : julian_monthLenSum = Julian.monthLenSum ∧ julian_monthLen = Julian.monthLenTab := by
  decide

theorem julian_IsLeap_eq (y : Int) : julian_IsLeap y = some (Julian.isLeap y) := by
  simp only [julian_IsLeap, Julian.isLeap, pure, tmod_zero_iff y 4 (by decide)]
  by_cases h : y % 4 = 0 <;> simp [h]

theorem julian_getYearDays_eq (m : Int) (leap : Bool) (h1 : 1 ≤ m) (h2 : m ≤ 13) :
    julian_getYearDays m leap = some (Julian.getYearDays m leap) := by
  have : m = 1 ∨ m = 2 ∨ m = 3 ∨ m = 4 ∨ m = 5 ∨ m = 6 ∨ m = 7 ∨ m = 8 ∨ m = 9 ∨ m = 10 ∨ m = 11 ∨ m = 12 ∨ m = 13 := by
    omega
  rcases this with h|h|h|h|h|h|h|h|h|h|h|h|h <;> subst h <;> cases leap <;> decide

/-- the month search loop, from any month k in 1..12 -/
theorem julian_loop_eq (yDays : Int) (leap : Bool) (n : Nat) :
    ∀ (k : Int) (fw fm : Nat), 1 ≤ k → k ≤ 12 → 12 - k = n → n < fw → n ≤ fm →
    GoSem.whileFuel fw
      (fun month => do (do if (decide (month < 12)) then pure (decide (yDays > (← (julian_getYearDays (GoSem.u8 (month + 1)) leap)))) else pure false))
      (fun month => do
        let month := (GoSem.u8 (month + 1))
        pure month)
      k = some (Julian.findMonth yDays leap k fm) := by
  induction n with
  | zero =>
    intro k fw fm h1 h2 hn hw hm
    have hk : k = 12 := by omega
    subst hk
    obtain ⟨fw', rfl⟩ : ∃ x, fw = x + 1 := ⟨fw - 1, by omega⟩
    cases fm <;> simp [GoSem.whileFuel, Julian.findMonth, pure, bind]
  | succ n ih =>
    intro k fw fm h1 h2 hn hw hm
    obtain ⟨fw', rfl⟩ : ∃ x, fw = x + 1 := ⟨fw - 1, by omega⟩
    obtain ⟨fm', rfl⟩ : ∃ x, fm = x + 1 := ⟨fm - 1, by omega⟩
    have hk : k < 12 := by omega
    have hu : GoSem.u8 (k + 1) = k + 1 := GoSem.u8_id (by omega) (by omega)
    have hg := julian_getYearDays_eq (k + 1) leap (by omega) (by omega)
    unfold GoSem.whileFuel Julian.findMonth
    by_cases hc : yDays > Julian.getYearDays (k + 1) leap
    · simp only [hk, hu, hg, hc, decide_true, pure, bind, Option.bind, if_true, and_self]
      exact ih (k + 1) fw' fm' (by omega) (by omega) (by omega) (by omega) (by omega)
    · simp [hk, hu, hg, hc, pure, bind, Option.bind]

theorem julian_findMonth_range (yDays : Int) (leap : Bool) (fuel : Nat) :
    ∀ k : Int, 1 ≤ k → k ≤ 12 → 1 ≤ Julian.findMonth yDays leap k fuel ∧ Julian.findMonth yDays leap k fuel ≤ 12 := by
  induction fuel with
  | zero => intro k h1 h2; simp [Julian.findMonth]; omega
  | succ f ih =>
    intro k h1 h2
    unfold Julian.findMonth
    split
    · rename_i hc; exact ih (k + 1) (by omega) (by omega)
    · omega

theorem julian_getMonthDayFromYdays_eq (yDays : Int) (leap : Bool) :
    julian_getMonthDayFromYdays yDays leap =
      some ((Julian.getMonthDay yDays leap).1, GoSem.u8 (Julian.getMonthDay yDays leap).2) := by
  unfold julian_getMonthDayFromYdays
  have hl := julian_loop_eq yDays leap 11 1 GoSem.fuel 11 (by omega) (by omega) (by omega) (by decide) (by omega)
  have hm := julian_findMonth_range yDays leap 11 1 (by omega) (by omega)
  simp only [bind, Option.bind, pure] at hl ⊢
  rw [hl]
  simp only [julian_getYearDays_eq _ leap hm.1 (by omega), Julian.getMonthDay]

theorem julian_ToJd_eq (y m d : Int) (h1 : 1 ≤ m) (h2 : m ≤ 13) :
    julian_ToJd ⟨y, m, d⟩ = some (Julian.toJd ⟨y, m, d⟩) := by
  simp only [julian_ToJd, utils_Divmod_pos y 4 (by decide), bind, Option.bind, pure, Julian.toJd, Julian.Epoch,
    int_beq]
  rw [julian_getYearDays_eq m _ h1 h2]

theorem julian_JdTo_eq (jd : Int) :
    julian_JdTo jd = some ⟨(Julian.jdTo jd).year, (Julian.jdTo jd).month, (Julian.jdTo jd).day⟩ := by
  have hwf := (Julian.jdTo_spec jd).1
  unfold Julian.WF at hwf
  have hml := Julian.monthLen_pos (Julian.jdTo jd).year (Julian.jdTo jd).month hwf.1 hwf.2.1
  revert hwf hml
  simp only [julian_JdTo, Julian.jdTo, Julian.Epoch, utils_Divmod_pos _ 1461 (by decide), utils_Divmod_pos _ 365 (by decide),
    bind, Option.bind, SrcExt.lib_NewDate, julian_getMonthDayFromYdays_eq, int_beq]
  by_cases h : (jd - 1721058) % 1461 = 0
  · simp [h]
  · simp only [h, decide_false, if_false, Bool.false_eq_true]
    intro hwf hml
    rw [GoSem.u8_id (by omega) (by omega)]

theorem julian_GetMonthLen_eq (y m : Int) (h1 : 1 ≤ m) (h2 : m ≤ 12) :
    julian_GetMonthLen y m = some (Julian.monthLen y m) := by
  have : m = 1 ∨ m = 2 ∨ m = 3 ∨ m = 4 ∨ m = 5 ∨ m = 6 ∨ m = 7 ∨ m = 8 ∨ m = 9 ∨ m = 10 ∨ m = 11 ∨ m = 12 := by omega
  simp only [julian_GetMonthLen, julian_IsLeap_eq, Julian.monthLen, bind, Option.bind, pure]
  rcases this with h|h|h|h|h|h|h|h|h|h|h|h <;> subst h <;> first | decide | (cases Julian.isLeap y <;> decide)

/-- the julian package, as translated from today's source, IS the model configuration `calJul` -/
theorem julian_translates : Translates Drv.calJul julian_ToJd julian_JdTo julian_IsLeap julian_GetMonthLen where
  jdTo_eq jd := julian_JdTo_eq jd
  toJd_eq y m d h1 h2 _ _ := julian_ToJd_eq y m d h1 (by omega)
  isLeap_eq := julian_IsLeap_eq
  monthLen_eq := julian_GetMonthLen_eq

end Starcal.SrcTie
