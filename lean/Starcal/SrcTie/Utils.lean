import Starcal.Gen.Src
import Starcal.DivMod
import Starcal.Bisect
/-! Source tie, utils: the functions of utils/divmod.go and utils/funcs.go as TRANSLATED from today's
    source (Gen/Src.lean) return, for every argument, what the hand-written model returns. -/
namespace Starcal.SrcTie
open Starcal Starcal.Gen.Src

theorem bool_and_or (p q r s : Prop) [Decidable p] [Decidable q] [Decidable r] [Decidable s] :
    (((decide p && decide q) || (decide r && decide s)) = true) ↔ ((p ∧ q) ∨ (r ∧ s)) := by
  simp

theorem utils_Mod_eq (a b : Int) (hb : b ≠ 0) : utils_Mod a b = some (goMod a b) := by
  simp only [utils_Mod, goMod, GoSem.rem, hb, if_false, bind, Option.bind, pure, bool_and_or]
  split <;> simp_all

theorem utils_Div_eq (a b : Int) (hb : b ≠ 0) : utils_Div a b = some (goDiv a b) := by
  simp only [utils_Div, goDiv, GoSem.rem, GoSem.quo, hb, if_false, bind, Option.bind, pure, bool_and_or]
  split <;> simp_all

theorem utils_Divmod_eq (a b : Int) (hb : b ≠ 0) : utils_Divmod a b = some (goDiv a b, goMod a b) := by
  simp only [utils_Divmod, goDiv, goMod, GoSem.rem, GoSem.quo, hb, if_false, bind, Option.bind, pure, bool_and_or]
  split <;> simp_all

/-- integer division by zero is a run-time panic in all three -/
theorem utils_div_by_zero (a : Int) : utils_Mod a 0 = none ∧ utils_Div a 0 = none ∧ utils_Divmod a 0 = none := by
  simp [utils_Mod, utils_Div, utils_Divmod, GoSem.rem, GoSem.quo, bind, Option.bind]

theorem utils_IntMin_eq (a b : Int) : utils_IntMin a b = some (intMin a b) := by
  simp only [utils_IntMin, intMin, pure]
  by_cases h : a < b <;> simp [h]

/-! ### BisectLeft: the translated closure under the transcribed `sort.Search` is the model's binary search -/

/-- the closure `func(i int) bool { return s[i] >= v }` -/
def bsF (a : List Int) (v : Int) : Int → Option Bool :=
  fun (i : Int) => (do pure (decide ((← (GoSem.idx a i)) ≥ v)) : Option Bool)

theorem bsF_in (a : List Int) (v : Int) (h : Nat) (hlen : h < a.length) :
    bsF a v (h : Int) = some (decide (a.getD h 0 ≥ v)) := by
  have h0 : (0 : Int) ≤ (h : Int) := Int.natCast_nonneg _
  have hidx : GoSem.idx a (h : Int) = some (a.getD h 0) := by
    simp only [GoSem.idx, h0, if_true, Int.toNat_natCast, List.getD]
    rw [List.getElem?_eq_getElem hlen]; rfl
  simp only [bsF, hidx, bind, Option.bind, pure]

theorem searchM_eq (a : List Int) (v : Int) : ∀ (fuel i j : Nat), j ≤ a.length →
    SrcExt.searchM (bsF a v) fuel (i : Int) (j : Int)
      = some ((searchAux (fun k => decide (a.getD k 0 ≥ v)) fuel i j : Nat) : Int) := by
  intro fuel
  induction fuel with
  | zero => intro i j _; rfl
  | succ fuel ih =>
    intro i j hj
    unfold SrcExt.searchM searchAux
    by_cases hlt : i < j
    · have hlt' : (i : Int) < (j : Int) := by omega
      have hh : ((i : Int) + (j : Int)) / 2 = (((i + j) / 2 : Nat) : Int) := by omega
      have hlen : (i + j) / 2 < a.length := by omega
      have hf := bsF_in a v ((i + j) / 2) hlen
      simp only [hlt, hlt', if_true, hh, hf, bind, Option.bind]
      cases hd : decide (a.getD ((i + j) / 2) 0 ≥ v) with
      | false =>
        have h1 : ((((i + j) / 2 : Nat) : Int) + 1) = ((((i + j) / 2 + 1 : Nat)) : Int) := by omega
        simp only [Bool.not_false, if_true, h1]
        exact ih ((i + j) / 2 + 1) j hj
      | true =>
        simp only [Bool.not_true, Bool.false_eq_true, if_false]
        exact ih i ((i + j) / 2) (by omega)
    · have hlt' : ¬ (i : Int) < (j : Int) := by omega
      simp only [hlt, hlt', if_false]

theorem utils_BisectLeft_eq (a : List Int) (v : Int) : utils_BisectLeft a v = some ((bisectLeft a v : Nat) : Int) := by
  have hdef : utils_BisectLeft a v = (do
      let s ← GoSem.sliceA a 0 (a.length : Int)
      SrcExt.sort_Search (s.length : Int) (bsF s v)) := rfl
  have h1 : (0 : Int) ≤ 0 ∧ (0 : Int) ≤ (a.length : Int) ∧ (a.length : Int) ≤ (a.length : Int) := by omega
  have h2 : ((a.length : Int) - 0).toNat = a.length := by omega
  have h3 : ((a.length : Int)).toNat = a.length := by omega
  have := searchM_eq a v (a.length + 1) 0 a.length (Nat.le_refl _)
  rw [hdef]
  simp only [GoSem.sliceA, h1, and_self, if_true, Int.toNat_zero, List.drop_zero, h2,
    List.take_length, bind, Option.bind, SrcExt.sort_Search, h3, bisectLeft]
  exact this

theorem utils_BisectLeft_chk_eq (a : List Int) (v : Int) : utils_BisectLeft_chk a v = utils_BisectLeft a v := rfl

end Starcal.SrcTie

namespace Starcal.SrcTie
open Starcal Starcal.Gen.Src

/-- Go's `%` by a positive constant in terms of the floor remainder -/
theorem tmod_pos (a k : Int) (hk : 0 < k) :
    Int.tmod a k = if 0 ≤ a ∨ a % k = 0 then a % k else a % k - k := by
  rw [Int.tmod_eq_emod]
  simp only [Int.dvd_iff_emod_eq_zero]
  split <;> simp <;> omega

/-- Go's `/` by a positive constant in terms of the floor quotient -/
theorem tdiv_pos (a k : Int) (hk : 0 < k) :
    Int.tdiv a k = if 0 ≤ a ∨ a % k = 0 then a / k else a / k + 1 := by
  rw [Int.tdiv_eq_ediv]
  simp only [Int.dvd_iff_emod_eq_zero]
  have : k.sign = 1 := Int.sign_eq_one_of_pos hk
  split <;> simp [this]

theorem some_ite {α : Type} (c : Prop) [Decidable c] (a b : α) :
    (if c then some a else some b) = some (if c then a else b) := by split <;> rfl

theorem int_beq (a b : Int) : (a == b) = decide (a = b) := by
  by_cases h : a = b <;> simp [h]

theorem tmod_nonneg_eq {a k : Int} (ha : 0 ≤ a) : Int.tmod a k = a % k := Int.tmod_eq_emod_of_nonneg ha
theorem tdiv_nonneg_eq {a k : Int} (ha : 0 ≤ a) : Int.tdiv a k = a / k := Int.tdiv_eq_ediv_of_nonneg ha

theorem tmod_zero_iff (a k : Int) (hk : 0 < k) : Int.tmod a k = 0 ↔ a % k = 0 := by
  rw [tmod_pos a k hk]; have := Int.emod_nonneg a (show k ≠ 0 by omega); have := Int.emod_lt_of_pos a hk
  split <;> omega

theorem goDiv_pos (a b : Int) (hb : 0 < b) : goDiv a b = a / b ∧ goMod a b = a % b := by
  have hs := goDivMod_spec a b (by omega)
  have h0 := Int.emod_nonneg a (show b ≠ 0 by omega)
  have h1 := Int.emod_lt_of_pos a hb
  have e := Int.emod_add_mul_ediv a b
  obtain ⟨s1, s2, s3⟩ := hs
  have hr0 : 0 ≤ goMod a b := by rcases s2 with h | h <;> omega
  have hr1 : goMod a b < b := by omega
  have : b * (goDiv a b - a / b) = a % b - goMod a b := by
    rw [Int.mul_sub]; have := Int.mul_comm b (a / b); omega
  have hq : goDiv a b - a / b = 0 := by
    by_cases hz : goDiv a b - a / b = 0
    · exact hz
    · exfalso
      rcases Int.lt_or_gt_of_ne hz with h | h
      · have : b * (goDiv a b - a / b) ≤ b * (-1) := Int.mul_le_mul_of_nonneg_left (by omega) (by omega)
        omega
      · have : b * 1 ≤ b * (goDiv a b - a / b) := Int.mul_le_mul_of_nonneg_left (by omega) (by omega)
        omega
  constructor
  · omega
  · rw [hq] at this; omega

theorem utils_Divmod_pos (a b : Int) (hb : 0 < b) : utils_Divmod a b = some (a / b, a % b) := by
  rw [utils_Divmod_eq a b (by omega), (goDiv_pos a b hb).1, (goDiv_pos a b hb).2]
theorem utils_Div_pos (a b : Int) (hb : 0 < b) : utils_Div a b = some (a / b) := by
  rw [utils_Div_eq a b (by omega), (goDiv_pos a b hb).1]
theorem utils_Mod_pos (a b : Int) (hb : 0 < b) : utils_Mod a b = some (a % b) := by
  rw [utils_Mod_eq a b (by omega), (goDiv_pos a b hb).2]

end Starcal.SrcTie
