import Starcal.SrcTie.Defs
import Starcal.Jalali
import Starcal.Jalali2
import Starcal.Jal2820
import Starcal.Jal2820b
/-! Source tie, cal_types/jalali: the translated source (both algorithms; the package variable `alg2820`
    is the first parameter) equals the hand-written models `Jalali.*` (33-year) and `Jalali.*2` (2820-year). -/
namespace Starcal.SrcTie
open Starcal Starcal.Gen.Src

theorem jalali_tables : jalali_monthLenSum = Jalali.monthLenSum ∧ jalali_monthLen = Jalali.monthLenTab := by
  decide

theorem jalali_sorted : SortedI jalali_monthLenSum := by
  intro x y hxy hy
  have hy' : y < 13 := hy
  have : ∀ y : Fin 13, ∀ x : Fin 13, x ≤ y → jalali_monthLenSum.getD x 0 ≤ jalali_monthLenSum.getD y 0 := by decide
  exact this ⟨y, hy'⟩ ⟨x, by omega⟩ hxy

/-- the binary search of utils.BisectLeft and the linear scan of the model find the same index -/
theorem jalali_bisect_eq (v : Int) : bisectLeft jalali_monthLenSum v = Jalali.bisect v 0 13 := by
  obtain ⟨h1, h2, h3⟩ := bisectLeft_spec jalali_monthLenSum v jalali_sorted
  generalize bisectLeft jalali_monthLenSum v = n at *
  have hlen : jalali_monthLenSum.length = 13 := rfl
  rw [hlen] at h1 h3
  have key : ∀ fuel i : Nat, i + fuel = 13 → i ≤ n → Jalali.bisect v i fuel = n := by
    intro fuel
    induction fuel with
    | zero => intro i hi hn; simp [Jalali.bisect]; omega
    | succ f ih =>
      intro i hi hn
      unfold Jalali.bisect
      rw [← jalali_tables.1]
      by_cases hin : i = n
      · subst hin
        have := h3 i (Nat.le_refl _) (by omega)
        rw [if_pos this]
      · have := h2 i (by omega)
        have hn' : ¬ (jalali_monthLenSum.getD i 0 ≥ v) := by omega
        simp only [hn', if_false]
        exact ih (i + 1) (by omega) (by omega)
  exact (key 13 0 rfl (Nat.zero_le _)).symm

theorem jalali_bisect_range (v : Int) (h1 : 1 ≤ v) : 1 ≤ Jalali.bisect v 0 13 ∧ Jalali.bisect v 0 13 ≤ 13 := by
  rw [← jalali_bisect_eq]
  obtain ⟨a1, a2, a3⟩ := bisectLeft_spec jalali_monthLenSum v jalali_sorted
  refine ⟨?_, a1⟩
  by_cases h : bisectLeft jalali_monthLenSum v = 0
  · have := a3 0 (by omega) (by decide)
    have e : jalali_monthLenSum.getD 0 0 = 0 := rfl
    omega
  · omega

theorem jalali_sum_idx (m : Int) (h1 : 1 ≤ m) (h2 : m ≤ 13) :
    GoSem.idx jalali_monthLenSum (GoSem.u8 (m - 1)) = some (Jalali.sumAt (m - 1)) := by
  have : m = 1 ∨ m = 2 ∨ m = 3 ∨ m = 4 ∨ m = 5 ∨ m = 6 ∨ m = 7 ∨ m = 8 ∨ m = 9 ∨ m = 10 ∨ m = 11 ∨ m = 12 ∨ m = 13 := by
    omega
  rcases this with h|h|h|h|h|h|h|h|h|h|h|h|h <;> subst h <;> decide

theorem jalali_getMonthDayFromYdays_eq (yd : Int) (h1 : 1 ≤ yd) :
    jalali_getMonthDayFromYdays yd = some ((Jalali.getMonthDay yd).1, GoSem.u8 (Jalali.getMonthDay yd).2) := by
  have hr := jalali_bisect_range yd h1
  have hu : GoSem.u8 ((Jalali.bisect yd 0 13 : Nat) : Int) = (Jalali.bisect yd 0 13 : Nat) := GoSem.u8_id (by omega) (by omega)
  simp only [jalali_getMonthDayFromYdays, utils_BisectLeft_eq, jalali_bisect_eq, bind, Option.bind, pure, hu,
    jalali_sum_idx _ (show (1:Int) ≤ (Jalali.bisect yd 0 13 : Nat) by omega) (by omega), Jalali.getMonthDay]

-- ---- 33-year algorithm (alg2820 = false) --------------------------------------------------------

theorem jalali_IsLeap_eq33 (y : Int) : jalali_IsLeap false y = some (Jalali.isLeap y) := by
  have a := Int.emod_nonneg (y - 979) (show (33:Int) ≠ 0 by decide)
  have b := Int.emod_nonneg (y - 979 + 1) (show (33:Int) ≠ 0 by decide)
  simp only [jalali_IsLeap, utils_Divmod_pos _ 33 (by decide), bind, Option.bind, pure, Jalali.isLeap,
    Bool.false_eq_true, if_false, tdiv_nonneg_eq (show 0 ≤ (y - 979 + 1) % 33 + 3 by omega),
    tdiv_nonneg_eq (show 0 ≤ (y - 979) % 33 + 3 by omega)]

theorem jalali_ToJd_eq33 (y m d : Int) (h1 : 1 ≤ m) (h2 : m ≤ 13) :
    jalali_ToJd false ⟨y, m, d⟩ = some (Jalali.toJd ⟨y, m, d⟩) := by
  simp only [jalali_ToJd, utils_Divmod_pos _ 33 (by decide), utils_Div_pos _ 4 (by decide), bind, Option.bind, pure,
    Jalali.toJd, Bool.false_eq_true, if_false, jalali_sum_idx m h1 h2, Jalali.GREGORIAN_EPOCH]

theorem jalali_JdTo_eq33 (jd : Int) :
    jalali_JdTo false jd = some ⟨(Jalali.jdTo jd).year, (Jalali.jdTo jd).month, (Jalali.jdTo jd).day⟩ := by
  have hwf := (Jalali.jdTo_spec jd).1
  unfold Jalali.WF at hwf
  have hml := Jalali.monthLen_range (Jalali.jdTo jd).year (Jalali.jdTo jd).month hwf.1 hwf.2.1
  revert hwf hml
  have c0 := Int.emod_nonneg (jd - 1721426 - 584101) (show (12053:Int) ≠ 0 by decide)
  have c1 := Int.emod_nonneg ((jd - 1721426 - 584101) % 12053) (show (1461:Int) ≠ 0 by decide)
  have c2 := Int.emod_nonneg ((jd - 1721426 - 584101) % 12053 % 1461 - 1) (show (365:Int) ≠ 0 by decide)
  by_cases h : (jd - 1721426 - 584101) % 12053 % 1461 ≥ 366
  · simp only [jalali_JdTo, Jalali.jdTo, Jalali.GREGORIAN_EPOCH, utils_Divmod_pos _ 12053 (by decide),
      utils_Divmod_pos _ 1461 (by decide), utils_Divmod_pos _ 365 (by decide), bind, Option.bind,
      SrcExt.lib_NewDate, Bool.false_eq_true, if_false, decide_eq_true_eq, h, if_true, pure,
      jalali_getMonthDayFromYdays_eq _ (show 1 ≤ ((jd - 1721426 - 584101) % 12053 % 1461 - 1) % 365 + 1 by omega)]
    intro hwf hml
    rw [GoSem.u8_id (by omega) (by omega)]
  · simp only [jalali_JdTo, Jalali.jdTo, Jalali.GREGORIAN_EPOCH, utils_Divmod_pos _ 12053 (by decide),
      utils_Divmod_pos _ 1461 (by decide), utils_Divmod_pos _ 365 (by decide), bind, Option.bind,
      SrcExt.lib_NewDate, Bool.false_eq_true, if_false, decide_eq_true_eq, h, pure,
      jalali_getMonthDayFromYdays_eq _ (show 1 ≤ (jd - 1721426 - 584101) % 12053 % 1461 + 1 by omega)]
    intro hwf hml
    rw [GoSem.u8_id (by omega) (by omega)]

theorem jalali_GetMonthLen_eq33 (y m : Int) (h1 : 1 ≤ m) (h2 : m ≤ 12) :
    jalali_GetMonthLen false y m = some (Jalali.monthLen y m) := by
  have : m = 1 ∨ m = 2 ∨ m = 3 ∨ m = 4 ∨ m = 5 ∨ m = 6 ∨ m = 7 ∨ m = 8 ∨ m = 9 ∨ m = 10 ∨ m = 11 ∨ m = 12 := by omega
  simp only [jalali_GetMonthLen, jalali_IsLeap_eq33, Jalali.monthLen, bind, Option.bind, pure]
  rcases this with h|h|h|h|h|h|h|h|h|h|h|h <;> subst h <;> first | decide | (cases Jalali.isLeap y <;> decide)

theorem jalali33_translates :
    Translates Drv.calJal33 (jalali_ToJd false) (jalali_JdTo false) (jalali_IsLeap false) (jalali_GetMonthLen false) where
  jdTo_eq jd := jalali_JdTo_eq33 jd
  toJd_eq y m d h1 h2 _ _ := jalali_ToJd_eq33 y m d h1 (by omega)
  isLeap_eq := jalali_IsLeap_eq33
  monthLen_eq := jalali_GetMonthLen_eq33

-- ---- 2820-year algorithm (alg2820 = true) ------------------------------------------------------

theorem jalali_IsLeap_eq2820 (y : Int) : jalali_IsLeap true y = some (Jalali.isLeap2 y) := by
  simp only [jalali_IsLeap, utils_Mod_pos _ 2820 (by decide), utils_Mod_pos _ 2816 (by decide), bind, Option.bind, pure,
    Jalali.isLeap2, if_true]

theorem jalali_ToJd_eq2820 (y m d : Int) (h1 : 1 ≤ m) (h2 : m ≤ 13) :
    jalali_ToJd true ⟨y, m, d⟩ = some (Jalali.toJd2 ⟨y, m, d⟩) := by
  have hu : GoSem.u8 (m - 1) = m - 1 := GoSem.u8_id (by omega) (by omega)
  simp only [jalali_ToJd, utils_Divmod_pos _ 2820 (by decide), utils_Div_pos _ 2816 (by decide), utils_IntMin_eq, intMin,
    bind, Option.bind, pure, Jalali.toJd2, if_true, hu, Jalali.Epoch]

theorem jalali_JdTo_eq2820 (jd : Int) :
    jalali_JdTo true jd = some ⟨(Jalali.jdTo2 jd).year, (Jalali.jdTo2 jd).month, (Jalali.jdTo2 jd).day⟩ := by
  have hwf := (Jalali.jdTo2_spec jd).1
  unfold Jalali.WF2 at hwf
  have hml := Jalali.monthLen2_range (Jalali.jdTo2 jd).year (Jalali.jdTo2 jd).month hwf.1 hwf.2.1
  have hs0 : ∀ k : Int, 1 ≤ k → k ≤ 12 → 0 ≤ Jalali.sumAt (k - 1) := by
    intro k h1 h2
    have : k = 1 ∨ k = 2 ∨ k = 3 ∨ k = 4 ∨ k = 5 ∨ k = 6 ∨ k = 7 ∨ k = 8 ∨ k = 9 ∨ k = 10 ∨ k = 11 ∨ k = 12 := by omega
    rcases this with h|h|h|h|h|h|h|h|h|h|h|h <;> subst h <;> decide
  have hs := hs0 (Jalali.jdTo2 jd).month hwf.1 hwf.2.1
  revert hwf hml hs
  have c0 := Int.emod_nonneg (jd - Jalali.toJd2 ⟨475, 1, 1⟩) (show (1029983:Int) ≠ 0 by decide)
  by_cases h : (jd - Jalali.toJd2 ⟨475, 1, 1⟩) % 1029983 = 1029982
  · simp only [Jalali.jdTo2, h, if_true, Jalali.getMonthDay]
    intro hwf hml hs
    simp only [jalali_JdTo, if_true, SrcExt.lib_NewDate, jalali_ToJd_eq2820 _ 1 1 (by decide) (by decide),
      utils_Divmod_pos _ 1029983 (by decide), bind, Option.bind, pure, h, decide_true,
      jalali_getMonthDayFromYdays_eq _ (show 1 ≤ jd - Jalali.toJd2 ⟨2820 * ((jd - Jalali.toJd2 ⟨475, 1, 1⟩) / 1029983) + 2820 + 474, 1, 1⟩ + 1 by omega),
      Jalali.getMonthDay]
    rw [GoSem.u8_id (by omega) (by omega)]
  · simp only [Jalali.jdTo2, h, if_false, Jalali.getMonthDay, Starcal.ycycle]
    intro hwf hml hs
    simp only [jalali_JdTo, if_true, SrcExt.lib_NewDate, jalali_ToJd_eq2820 _ 1 1 (by decide) (by decide),
      utils_Divmod_pos _ 1029983 (by decide), utils_Divmod_pos _ 366 (by decide), utils_Div_pos _ 1028522 (by decide),
      bind, Option.bind, pure, h, decide_false, Bool.false_eq_true, if_false, tdiv_nonneg_eq c0,
      jalali_getMonthDayFromYdays_eq _ (show 1 ≤ jd - Jalali.toJd2 ⟨2820 * ((jd - Jalali.toJd2 ⟨475, 1, 1⟩) / 1029983) +
        ((2134 * ((jd - Jalali.toJd2 ⟨475, 1, 1⟩) % 1029983 / 366) + 2816 * ((jd - Jalali.toJd2 ⟨475, 1, 1⟩) % 1029983 % 366) + 2815) / 1028522 +
          (jd - Jalali.toJd2 ⟨475, 1, 1⟩) % 1029983 / 366 + 1) + 474, 1, 1⟩ + 1 by omega),
      Jalali.getMonthDay]
    rw [GoSem.u8_id (by omega) (by omega)]

theorem jalali_GetMonthLen_eq2820 (y m : Int) (h1 : 1 ≤ m) (h2 : m ≤ 12) :
    jalali_GetMonthLen true y m = some (Jalali.monthLen2 y m) := by
  have : m = 1 ∨ m = 2 ∨ m = 3 ∨ m = 4 ∨ m = 5 ∨ m = 6 ∨ m = 7 ∨ m = 8 ∨ m = 9 ∨ m = 10 ∨ m = 11 ∨ m = 12 := by omega
  simp only [jalali_GetMonthLen, jalali_IsLeap_eq2820, Jalali.monthLen2, bind, Option.bind, pure]
  rcases this with h|h|h|h|h|h|h|h|h|h|h|h <;> subst h <;> first | decide | (cases Jalali.isLeap2 y <;> decide)

theorem jalali2820_translates :
    Translates Drv.calJal2820 (jalali_ToJd true) (jalali_JdTo true) (jalali_IsLeap true) (jalali_GetMonthLen true) where
  jdTo_eq jd := jalali_JdTo_eq2820 jd
  toJd_eq y m d h1 h2 _ _ := jalali_ToJd_eq2820 y m d h1 (by omega)
  isLeap_eq := jalali_IsLeap_eq2820
  monthLen_eq := jalali_GetMonthLen_eq2820

end Starcal.SrcTie
