import Starcal.SrcTie.Utils
import Starcal.Drv.Cal
/-! Source tie, shared statement: what it means for the four TRANSLATED functions of a calendar package
    (Gen/Src.lean, regenerated from /repo on every run) to be the configuration `c` of the hand-written
    model — the record the theorems C01/C02/C03/C07 are about and the driver executes. -/
namespace Starcal.SrcTie
open Starcal

/-- the translated source of one calendar package computes exactly the model configuration `c`:
    * `JdTo` returns (never panics) the model's date, for EVERY day number;
    * `ToJd` returns the model's day number for every year, month 1..12 and uint8 day;
    * `IsLeap` returns the model's answer for every year;
    * `GetMonthLen` returns the model's length for every year and month 1..12. -/
structure Translates (c : Drv.Cal)
    (srcToJd : GoSem.Date → Option Int) (srcJdTo : Int → Option GoSem.Date)
    (srcIsLeap : Int → Option Bool) (srcMonthLen : Int → Int → Option Int) : Prop where
  jdTo_eq : ∀ jd : Int, srcJdTo jd = some ⟨(c.jdTo jd).1, (c.jdTo jd).2.1, (c.jdTo jd).2.2⟩
  toJd_eq : ∀ y m d : Int, 1 ≤ m → m ≤ 12 → 0 ≤ d → d < 256 → srcToJd ⟨y, m, d⟩ = some (c.toJd y m d)
  isLeap_eq : ∀ y : Int, srcIsLeap y = some (c.isLeap y)
  monthLen_eq : ∀ y m : Int, 1 ≤ m → m ≤ 12 → srcMonthLen y m = some (c.monthLen y m)

end Starcal.SrcTie
