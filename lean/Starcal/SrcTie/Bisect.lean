import Starcal.SrcTie.Utils
import Starcal.Props.C19
/-! Source tie, utils.BisectLeft: C19's BisectLeft clause restated about the translated code (the closure handed to
    `sort.Search`, with `sort.Search` the transcription of Go's standard library in SrcExt.lean). -/
namespace Starcal.SrcTie
open Starcal Starcal.Gen.Src

/-- for a sorted list, today's source of `BisectLeft` returns (no panic) the number of elements below `v`: everything
    before the returned index is smaller than `v`, everything from it on is at least `v` -/
theorem src_bisect_left (a : List Int) (v : Int) (hs : SortedI a) :
    ∃ r : Nat, utils_BisectLeft a v = some (r : Int) ∧ r ≤ a.length ∧
      (∀ x, x < r → a.getD x 0 < v) ∧ (∀ x, r ≤ x → x < a.length → v ≤ a.getD x 0) :=
  ⟨bisectLeft a v, utils_BisectLeft_eq a v, Props.C19_bisect_left a v hs⟩

theorem searchAux_le (f : Nat → Bool) : ∀ (fuel i j : Nat), i ≤ j → searchAux f fuel i j ≤ j := by
  intro fuel
  induction fuel with
  | zero => intro i j h; exact h
  | succ fuel ih =>
    intro i j h
    unfold searchAux
    by_cases hlt : i < j
    · simp only [hlt, if_true]
      cases f ((i + j) / 2) with
      | false => simp only [Bool.not_false, if_true]; exact ih _ _ (by omega)
      | true =>
        simp only [Bool.not_true, Bool.false_eq_true, if_false]
        exact Nat.le_trans (ih _ _ (by omega)) (by omega)
    · simp only [hlt, if_false]; exact h

/-- and for ANY list (sorted or not) it does not panic: every index the search asks for is inside the list -/
theorem src_bisect_left_total (a : List Int) (v : Int) : ∃ r : Nat, utils_BisectLeft a v = some (r : Int) ∧ r ≤ a.length := by
  refine ⟨bisectLeft a v, utils_BisectLeft_eq a v, ?_⟩
  exact searchAux_le (fun i => decide (a.getD i 0 ≥ v)) (a.length + 1) 0 a.length (Nat.zero_le _)

example : utils_BisectLeft [0, 31, 62, 93] 62 = some 2 := by decide

end Starcal.SrcTie
