import Starcal.Gen.Src
import Starcal.Ival
/-! Source tie, interval: the comparator `IntervalPointList.Less` of interval.go — the tie-breaking order of end points
    (position, then start before end, then closed start < open start < open end < closed end, then list number) on which
    Normalize and the intersection sweep rest — as translated from today's source, is the model's `Point.less`. -/
namespace Starcal.SrcTie
open Starcal Starcal.Gen.Src Starcal.Ival

/-- a point of the translated code as a point of the model (the list number is a non-negative index) -/
def toPoint (p : interval_IntervalPoint) : Point := ⟨p.Pos, p.IsEnd, p.Closed, p.ListId.toNat⟩

theorem interval_Less_eq (p : List interval_IntervalPoint) (i j : Nat) (a b : interval_IntervalPoint)
    (hi : p[i]? = some a) (hj : p[j]? = some b) (ha : 0 ≤ a.ListId) (hb : 0 ≤ b.ListId) :
    interval_Less p i j = some (Point.less (toPoint a) (toPoint b)) := by
  have e1 : GoSem.idxA p (i : Int) = some a := by simp [GoSem.idxA, hi]
  have e2 : GoSem.idxA p (j : Int) = some b := by simp [GoSem.idxA, hj]
  simp only [interval_Less, e1, e2, bind, Option.bind, pure, Point.less, toPoint]
  have hl : (a.ListId.toNat = b.ListId.toNat) ↔ (a.ListId = b.ListId) := by omega
  have hlt : (a.ListId.toNat < b.ListId.toNat) ↔ (a.ListId < b.ListId) := by omega
  by_cases h1 : a.Pos = b.Pos
  · by_cases h2 : a.IsEnd = b.IsEnd
    · by_cases h3 : a.Closed = b.Closed
      · by_cases h4 : a.ListId = b.ListId
        · simp [h1, h2, h3, h4]
        · simp [h1, h2, h3, h4, hl, hlt]
      · simp [h1, h2, h3]; split <;> rfl
    · simp [h1, h2]
  · simp [h1]; rfl

/-- an index outside the list is a run-time panic, as in Go -/
theorem interval_Less_oob (p : List interval_IntervalPoint) (i j : Int) (h : i < 0 ∨ (p.length : Int) ≤ i) :
    interval_Less p i j = none := by
  have : GoSem.idxA p i = none := by
    unfold GoSem.idxA
    split
    · rename_i h0
      rcases h with h | h
      · omega
      · simp; omega
    · rfl
  simp [interval_Less, this, bind, Option.bind]

end Starcal.SrcTie
