import Starcal.SrcTie.Julian
import Starcal.SrcTie.Jalali
import Starcal.SrcTie.Ethiopian
import Starcal.SrcTie.Proleptic
import Starcal.SrcTie.Indian
import Starcal.SrcTie.Hijri
import Starcal.Props.C01
import Starcal.Props.C02
/-! Source tie, calendars: C01 and C02 stated DIRECTLY about the functions translated from today's source
    (Gen/Src.lean) — no hand-written model in the statement. They follow from `Translates` (SrcTie/<Pkg>.lean)
    and the model theorems `C01_<cfg>`, `C02_<cfg>`. -/
namespace Starcal.SrcTie
open Starcal Starcal.Gen.Src Starcal.Props

/-- C01 on the translated source: every day number converts (no panic) to a date that converts back to it -/
theorem Translates.jd_roundtrip {c : Drv.Cal} {tj jt il ml} (h : Translates c tj jt il ml) (hb : Bijective c)
    (hlen : ∀ y m, 1 ≤ m → m ≤ 12 → c.monthLen y m < 256) (jd : Int) :
    ∃ d : GoSem.Date, jt jd = some d ∧ tj d = some jd := by
  refine ⟨⟨(c.jdTo jd).1, (c.jdTo jd).2.1, (c.jdTo jd).2.2⟩, h.jdTo_eq jd, ?_⟩
  obtain ⟨_, m1, m2, d1, d2⟩ := hb.jdTo_wf jd
  have := hlen (c.jdTo jd).1 (c.jdTo jd).2.1 m1 m2
  rw [h.toJd_eq _ _ _ m1 m2 (by omega) (by omega)]
  have := hb.jd_roundtrip jd
  unfold toJdT at this
  rw [this]

/-- C01 on the translated source: every well-formed date converts to a day number that converts back to it -/
theorem Translates.date_roundtrip {c : Drv.Cal} {tj jt il ml} (h : Translates c tj jt il ml) (hb : Bijective c)
    (hlen : ∀ y m, 1 ≤ m → m ≤ 12 → c.monthLen y m < 256) (y m d : Int) (hw : WF c (y, m, d)) :
    ∃ jd : Int, tj ⟨y, m, d⟩ = some jd ∧ jt jd = some ⟨y, m, d⟩ := by
  obtain ⟨_, m1, m2, d1, d2⟩ := hw
  have := hlen y m m1 m2
  refine ⟨c.toJd y m d, h.toJd_eq y m d m1 m2 (by simp only at d1; omega) (by simp only at d2; omega), ?_⟩
  rw [h.jdTo_eq]
  have := hb.date_roundtrip (y, m, d) ⟨by assumption, m1, m2, d1, d2⟩
  unfold toJdT at this
  simp only at this
  rw [this]

/-- C02 on the translated source: consecutive day numbers give a date and its calendar successor, where the
    successor is computed with the translated `GetMonthLen` -/
theorem Translates.consecutive {c : Drv.Cal} {tj jt il ml} (h : Translates c tj jt il ml) (hc : Consecutive c)
    (jd : Int) :
    ∃ y m d len : Int, jt jd = some ⟨y, m, d⟩ ∧ ml y m = some len ∧
      jt (jd + 1) = some (if d < len then ⟨y, m, d + 1⟩ else if m < 12 then ⟨y, m + 1, 1⟩
        else ⟨(if c.skipYear0 = true ∧ y = -1 then 1 else y + 1), 1, 1⟩) := by
  obtain ⟨_, m1, m2, _, _⟩ := hc.jdTo_wf jd
  refine ⟨(c.jdTo jd).1, (c.jdTo jd).2.1, (c.jdTo jd).2.2, c.monthLen (c.jdTo jd).1 (c.jdTo jd).2.1,
    h.jdTo_eq jd, h.monthLen_eq _ _ m1 m2, ?_⟩
  rw [h.jdTo_eq (jd + 1), hc.succ_step jd]
  unfold succ
  split <;> (try split) <;> rfl

/-- per configuration: the translated package satisfies C01 and C02 -/
structure SourceOK (tj : GoSem.Date → Option Int) (jt : Int → Option GoSem.Date) (ml : Int → Int → Option Int)
    (skip0 : Bool) : Prop where
  jd_roundtrip : ∀ jd : Int, ∃ d : GoSem.Date, jt jd = some d ∧ tj d = some jd
  consecutive : ∀ jd : Int, ∃ y m d len : Int, jt jd = some ⟨y, m, d⟩ ∧ ml y m = some len ∧
      jt (jd + 1) = some (if d < len then ⟨y, m, d + 1⟩ else if m < 12 then ⟨y, m + 1, 1⟩
        else ⟨(if skip0 = true ∧ y = -1 then 1 else y + 1), 1, 1⟩)

theorem src_julian : SourceOK julian_ToJd julian_JdTo julian_GetMonthLen false :=
  ⟨julian_translates.jd_roundtrip C01_julian (fun y m h1 h2 => by
      have := Julian.monthLen_pos y m h1 h2; simp only [Drv.calJul]; omega),
   julian_translates.consecutive C02_julian⟩

theorem src_jalali_33 : SourceOK (jalali_ToJd false) (jalali_JdTo false) (jalali_GetMonthLen false) false :=
  ⟨jalali33_translates.jd_roundtrip C01_jalali_33 (fun y m h1 h2 => by
      have := Jalali.monthLen_range y m h1 h2; simp only [Drv.calJal33]; omega),
   jalali33_translates.consecutive C02_jalali_33⟩

theorem src_jalali_2820 : SourceOK (jalali_ToJd true) (jalali_JdTo true) (jalali_GetMonthLen true) false :=
  ⟨jalali2820_translates.jd_roundtrip C01_jalali_2820 (fun y m h1 h2 => by
      have := Jalali.monthLen2_range y m h1 h2; simp only [Drv.calJal2820]; omega),
   jalali2820_translates.consecutive C02_jalali_2820⟩

theorem src_ethiopian : SourceOK ethiopian_ToJd ethiopian_JdTo ethiopian_GetMonthLen false :=
  ⟨ethiopian_translates.jd_roundtrip C01_ethiopian (fun y m _ _ => by
      simp only [Drv.calEth, Ethiopian.monthLen]; split <;> (try split) <;> omega),
   ethiopian_translates.consecutive C02_ethiopian⟩

theorem src_gregorian_proleptic : SourceOK gprol_ToJd gprol_JdTo gprol_GetMonthLen true :=
  ⟨gprol_translates.jd_roundtrip C01_gregorian_proleptic (fun y m h1 h2 => by
      have := gMonthLen_range (relIn y) m h1 h2; simp only [Drv.calGprol, pMonthLen]; omega),
   gprol_translates.consecutive C02_gregorian_proleptic⟩

theorem src_indian_national : SourceOK indian_ToJd indian_JdTo indian_GetMonthLen false :=
  ⟨indian_translates.jd_roundtrip C01_indian_national (fun y m _ _ => by
      have := iMonthLen_range y m; simp only [Drv.calInd]; omega),
   indian_translates.consecutive C02_indian_national⟩

theorem src_hijri_arithmetic : SourceOK hijri_ToJd hijri_JdTo hijri_GetMonthLen false :=
  ⟨hijri_translates.jd_roundtrip C01_hijri_arithmetic (fun y m _ _ => by
      have := Hijri.monthLen_range y m; simp only [Drv.calHijA]; omega),
   hijri_translates.consecutive C02_hijri_arithmetic⟩

/-- non-vacuity: the translated julian code on a concrete day -/
example : julian_JdTo 2440588 = some ⟨1969, 12, 19⟩ ∧ julian_ToJd ⟨1969, 12, 19⟩ = some 2440588 := by decide

end Starcal.SrcTie
