import Starcal.SrcTie.Defs
import Starcal.Indian
import Starcal.Indian2
/-! Source tie, cal_types/indian_national: the translated source equals the hand-written model (`iToJd`, `iJdTo`,
    `iIsLeap`, `iMonthLen`). The gregorian functions it calls are the external model of SrcExt.lean (the gregorian
    package is Go's `time` package and is tied by the correspondence check). -/
namespace Starcal.SrcTie
open Starcal Starcal.Gen.Src

theorem indian_IsLeap_eq (y : Int) : indian_IsLeap y = some (iIsLeap y) := by
  simp only [indian_IsLeap, SrcExt.gregorian_IsLeap, iIsLeap]

theorem indian_ToJd_eq (y m d : Int) : indian_ToJd ⟨y, m, d⟩ = some (iToJd ⟨y, m, d⟩) := by
  simp only [indian_ToJd, indian_IsLeap_eq, iToJd, SrcExt.gregorian_ToJd, SrcExt.lib_NewDate, bind, Option.bind, pure,
    decide_eq_true_eq]
  cases iIsLeap y <;> by_cases h1 : m = 1 <;> by_cases h6 : m ≤ 6 <;> simp [h1, h6]

theorem indian_GetMonthLen_eq (y m : Int) : indian_GetMonthLen y m = some (iMonthLen y m) := by
  simp only [indian_GetMonthLen, indian_IsLeap_eq, iMonthLen, bind, Option.bind, pure]
  by_cases h1 : m = 1 <;> by_cases h2 : 2 ≤ m <;> by_cases h6 : m ≤ 6 <;> cases iIsLeap y <;> simp [h1, h2, h6]

theorem indian_JdTo_eq (jd : Int) :
    indian_JdTo jd = some ⟨(iJdTo jd).year, (iJdTo jd).month, (iJdTo jd).day⟩ := by
  have hwf := (iJdTo_spec jd).1
  unfold iWF at hwf
  have hml := iMonthLen_range (iJdTo jd).year (iJdTo jd).month
  revert hwf hml
  simp only [indian_JdTo, iJdTo, indian_IsLeap_eq, SrcExt.gregorian_ToJd, SrcExt.gregorian_JdTo, SrcExt.lib_NewDate,
    bind, Option.bind, pure, some_ite, decide_eq_true_eq, Int.reduceMul, Int.reduceAdd]
  generalize jd - gToJd ⟨(gJdTo jd).year, 1, 1⟩ + 1 = doy
  generalize (gJdTo jd).year = gy
  by_cases hd : doy > 80 <;> cases hl : iIsLeap (if doy > 80 then gy - 78 else gy - 79) <;>
    (try simp only [hd, if_true, if_false] at hl) <;> (try simp only [hd, if_true, if_false]) <;>
    (try simp only [hl, Bool.false_eq_true, if_true, if_false]) <;>
    split <;> (try split) <;> intro hwf hml <;>
    (try simp (disch := omega) only [tdiv_nonneg_eq]) <;> simp_all [GoSem.u8] <;> omega

/-- the indian_national package, as translated from today's source, IS the model configuration `calInd` -/
theorem indian_translates : Translates Drv.calInd indian_ToJd indian_JdTo indian_IsLeap indian_GetMonthLen where
  jdTo_eq jd := indian_JdTo_eq jd
  toJd_eq y m d _ _ _ _ := indian_ToJd_eq y m d
  isLeap_eq := indian_IsLeap_eq
  monthLen_eq y m _ _ := indian_GetMonthLen_eq y m

end Starcal.SrcTie
