import Starcal.SrcTie.Utils
import Starcal.SrcTie.Julian
import Starcal.SrcTie.Jalali
import Starcal.SrcTie.Ethiopian
import Starcal.SrcTie.Proleptic
import Starcal.SrcTie.Indian
import Starcal.SrcTie.Hijri
import Starcal.Props.C19
/-! Source tie, machine integers: Gen/Src.lean carries, next to every translated function `f`, an overflow-checked
    copy `f_chk` in which every `int` / `int64` addition, subtraction, multiplication, negation and non-constant
    division goes through `GoSem.chk64` (`none` when the exact result does not fit in 64 bits). This file proves
    `f_chk = f` on the property's domain: there the machine arithmetic of the real code IS the unbounded arithmetic of
    the model — the idealisation "Go int as unbounded Int" is discharged for these functions on these arguments. -/
namespace Starcal.SrcTie
open Starcal Starcal.Gen.Src Starcal.Props Starcal.RatCeil

/-- Div / Mod / Divmod over the WHOLE 64-bit domain (every pair except a zero divisor and MinInt / -1) -/
theorem utils_chk_eq (a b : Int) (ha : I64 a) (hb : I64 b) (hb0 : b ≠ 0)
    (hex : ¬ (a = -9223372036854775808 ∧ b = -1)) :
    utils_Mod_chk a b = utils_Mod a b ∧ utils_Div_chk a b = utils_Div a b ∧ utils_Divmod_chk a b = utils_Divmod a b := by
  obtain ⟨h1, h2, h3⟩ := C19_no_overflow a b ha hb hb0 hex
  unfold I64 at h1 h2 h3
  have q : GoSem.quo64 a b = GoSem.quo a b := by
    simp only [GoSem.quo64, GoSem.quo, hb0, if_false]; exact GoSem.chk64_eq h1.1 h1.2
  refine ⟨?_, ?_, ?_⟩
  · simp only [utils_Mod_chk, utils_Mod, GoSem.rem, hb0, if_false, bind, Option.bind, pure, bool_and_or]
    split
    · rename_i hc; exact GoSem.chk64_eq (h3 hc).1.1 (h3 hc).1.2
    · rfl
  · simp only [utils_Div_chk, utils_Div, q, GoSem.quo, GoSem.rem, hb0, if_false, bind, Option.bind, pure, bool_and_or]
    split
    · rename_i hc; exact GoSem.chk64_eq (h3 hc).2.1 (h3 hc).2.2
    · rfl
  · simp only [utils_Divmod_chk, utils_Divmod, q, GoSem.quo, GoSem.rem, hb0, if_false, bind, Option.bind, pure, bool_and_or]
    split
    · rename_i hc
      rw [GoSem.chk64_eq (h3 hc).2.1 (h3 hc).2.2, GoSem.chk64_eq (h3 hc).1.1 (h3 hc).1.2]
    · rfl

/-- the form the calendars use: a positive constant divisor, |a| < 2^62 -/
theorem utils_Divmod_chk_pos (a b : Int) (ha0 : -4611686018427387904 ≤ a) (ha1 : a ≤ 4611686018427387904)
    (hb0 : 0 < b) (hb1 : b ≤ 4611686018427387904) : utils_Divmod_chk a b = some (a / b, a % b) := by
  rw [(utils_chk_eq a b (by unfold I64; omega) (by unfold I64; omega) (by omega) (by omega)).2.2, utils_Divmod_pos a b hb0]
theorem utils_Div_chk_pos (a b : Int) (ha0 : -4611686018427387904 ≤ a) (ha1 : a ≤ 4611686018427387904)
    (hb0 : 0 < b) (hb1 : b ≤ 4611686018427387904) : utils_Div_chk a b = some (a / b) := by
  rw [(utils_chk_eq a b (by unfold I64; omega) (by unfold I64; omega) (by omega) (by omega)).2.1, utils_Div_pos a b hb0]
theorem utils_Mod_chk_pos (a b : Int) (ha0 : -4611686018427387904 ≤ a) (ha1 : a ≤ 4611686018427387904)
    (hb0 : 0 < b) (hb1 : b ≤ 4611686018427387904) : utils_Mod_chk a b = some (a % b) := by
  rw [(utils_chk_eq a b (by unfold I64; omega) (by unfold I64; omega) (by omega) (by omega)).1, utils_Mod_pos a b hb0]

theorem utils_IntMin_chk_eq (a b : Int) : utils_IntMin_chk a b = utils_IntMin a b := rfl

/-- the checked copy of one calendar package computes the model configuration `c` on the stated (generous) domain:
    no intermediate value of the real code leaves 64 bits there -/
structure TranslatesChecked (c : Drv.Cal)
    (tj : GoSem.Date → Option Int) (jt : Int → Option GoSem.Date) (il : Int → Option Bool) (ml : Int → Int → Option Int) : Prop where
  jdTo_eq : ∀ jd : Int, -1000000000 ≤ jd → jd ≤ 1000000000 →
    jt jd = some ⟨(c.jdTo jd).1, (c.jdTo jd).2.1, (c.jdTo jd).2.2⟩
  toJd_eq : ∀ y m d : Int, -100000000 ≤ y → y ≤ 100000000 → 1 ≤ m → m ≤ 12 → 0 ≤ d → d < 256 →
    tj ⟨y, m, d⟩ = some (c.toJd y m d)
  isLeap_eq : ∀ y : Int, -100000000 ≤ y → y ≤ 100000000 → il y = some (c.isLeap y)
  monthLen_eq : ∀ y m : Int, -100000000 ≤ y → y ≤ 100000000 → 1 ≤ m → m ≤ 12 → ml y m = some (c.monthLen y m)

/-! ### julian -/

theorem julian_IsLeap_chk_eq (y : Int) : julian_IsLeap_chk y = julian_IsLeap y := rfl

theorem tbl_julian (i v : Int) (h : GoSem.idx julian_monthLenSum i = some v) : 0 ≤ v ∧ v ≤ 365 := by
  unfold GoSem.idx at h
  split at h
  · have : ∀ n : Nat, ∀ v, julian_monthLenSum[n]? = some v → 0 ≤ v ∧ v ≤ 365 := by
      intro n v hv
      have hn : n < 13 := by
        have := (List.getElem?_eq_some_iff.mp hv).1
        simpa [julian_monthLenSum] using this
      have : ∀ k : Fin 13, ∀ v, julian_monthLenSum[k.val]? = some v → 0 ≤ v ∧ v ≤ 365 := by decide
      exact this ⟨n, hn⟩ v hv
    exact this _ v h
  · simp at h

theorem julian_getYearDays_chk_eq (m : Int) (leap : Bool) : julian_getYearDays_chk m leap = julian_getYearDays m leap := by
  unfold julian_getYearDays_chk julian_getYearDays
  cases h : GoSem.idx julian_monthLenSum (GoSem.u8 (m - 1)) with
  | none => simp [bind, Option.bind]
  | some v =>
    have := tbl_julian _ v h
    simp only [bind, Option.bind, pure]
    split
    · rw [GoSem.chk64_eq (by omega) (by omega)]
    · rfl

theorem julian_getYearDays_range (m : Int) (leap : Bool) (v : Int) (h : julian_getYearDays m leap = some v) : -1 ≤ v ∧ v ≤ 365 := by
  unfold julian_getYearDays at h
  cases hi : GoSem.idx julian_monthLenSum (GoSem.u8 (m - 1)) with
  | none => simp [hi, bind, Option.bind] at h
  | some w =>
    have := tbl_julian _ w hi
    simp only [hi, bind, Option.bind, pure] at h
    split at h <;> simp at h <;> omega

theorem julian_getMonthDayFromYdays_chk_eq (yd : Int) (leap : Bool) (h0 : -1000000 ≤ yd) (h1 : yd ≤ 1000000) :
    julian_getMonthDayFromYdays_chk yd leap = julian_getMonthDayFromYdays yd leap := by
  unfold julian_getMonthDayFromYdays_chk julian_getMonthDayFromYdays
  have e : julian_getYearDays_chk = julian_getYearDays := by funext m l; exact julian_getYearDays_chk_eq m l
  simp only [e, bind]
  apply Option.bind_congr
  intro mo _
  apply Option.bind_congr
  intro v hv
  have := julian_getYearDays_range mo leap v hv
  rw [GoSem.chk64_eq (by omega) (by omega)]
  rfl

theorem julian_ToJd_chk_eq (y m d : Int) (hy0 : -100000000 ≤ y) (hy1 : y ≤ 100000000) (hm0 : 1 ≤ m) (hm1 : m ≤ 13)
    (hd0 : 0 ≤ d) (hd1 : d < 256) : julian_ToJd_chk ⟨y, m, d⟩ = julian_ToJd ⟨y, m, d⟩ := by
  have e : julian_getYearDays_chk = julian_getYearDays := by funext m l; exact julian_getYearDays_chk_eq m l
  have hg := julian_getYearDays_eq m (decide (y % 4 = 0)) hm0 hm1
  have hr := julian_getYearDays_range m (decide (y % 4 = 0)) _ hg
  rw [julian_ToJd_eq y m d hm0 hm1]
  simp (disch := omega) only [julian_ToJd_chk, e, hg, utils_Divmod_chk_pos, GoSem.chk64_eq, bind, Option.bind, pure,
    Julian.toJd, Julian.Epoch, int_beq]

theorem julian_GetMonthLen_chk_eq (y m : Int) : julian_GetMonthLen_chk y m = julian_GetMonthLen y m := rfl

theorem julian_getMonthDayFromYdays_chk_val (yDays : Int) (leap : Bool) (h0 : -1000000 ≤ yDays) (h1 : yDays ≤ 1000000) :
    julian_getMonthDayFromYdays_chk yDays leap =
      some ((Julian.getMonthDay yDays leap).1, GoSem.u8 (Julian.getMonthDay yDays leap).2) := by
  rw [julian_getMonthDayFromYdays_chk_eq yDays leap h0 h1, julian_getMonthDayFromYdays_eq]

theorem julian_JdTo_chk_val (jd : Int) (h0 : -1000000000 ≤ jd) (h1 : jd ≤ 1000000000) :
    julian_JdTo_chk jd = some ⟨(Julian.jdTo jd).year, (Julian.jdTo jd).month, (Julian.jdTo jd).day⟩ := by
  have hwf := (Julian.jdTo_spec jd).1
  unfold Julian.WF at hwf
  have hml := Julian.monthLen_pos (Julian.jdTo jd).year (Julian.jdTo jd).month hwf.1 hwf.2.1
  revert hwf hml
  simp (disch := omega) only [julian_JdTo_chk, Julian.jdTo, Julian.Epoch, utils_Divmod_chk_pos, GoSem.chk64_eq,
    bind, Option.bind, SrcExt.lib_NewDate, julian_getMonthDayFromYdays_chk_val, int_beq]
  by_cases h : (jd - 1721058) % 1461 = 0
  · simp [h]
  · simp only [h, decide_false, if_false, Bool.false_eq_true]
    intro hwf hml
    rw [GoSem.u8_id (by omega) (by omega)]

theorem julian_checked : TranslatesChecked Drv.calJul julian_ToJd_chk julian_JdTo_chk julian_IsLeap_chk julian_GetMonthLen_chk where
  jdTo_eq jd h0 h1 := julian_JdTo_chk_val jd h0 h1
  toJd_eq y m d hy0 hy1 m1 m2 d0 d1 := by
    rw [julian_ToJd_chk_eq y m d hy0 hy1 m1 (by omega) d0 d1]; exact julian_ToJd_eq y m d m1 (by omega)
  isLeap_eq y _ _ := by rw [julian_IsLeap_chk_eq]; exact julian_IsLeap_eq y
  monthLen_eq y m _ _ m1 m2 := by rw [julian_GetMonthLen_chk_eq]; exact julian_GetMonthLen_eq y m m1 m2

/-! ### jalali (both algorithms) -/

theorem jalali_sum_range (m : Int) (h1 : 1 ≤ m) (h2 : m ≤ 13) : 0 ≤ Jalali.sumAt (m - 1) ∧ Jalali.sumAt (m - 1) ≤ 366 := by
  have : m = 1 ∨ m = 2 ∨ m = 3 ∨ m = 4 ∨ m = 5 ∨ m = 6 ∨ m = 7 ∨ m = 8 ∨ m = 9 ∨ m = 10 ∨ m = 11 ∨ m = 12 ∨ m = 13 := by
    omega
  rcases this with h|h|h|h|h|h|h|h|h|h|h|h|h <;> subst h <;> decide

theorem jalali_getMonthDayFromYdays_chk_val (yd : Int) (h1 : 1 ≤ yd) (h2 : yd ≤ 1000000) :
    jalali_getMonthDayFromYdays_chk yd = some ((Jalali.getMonthDay yd).1, GoSem.u8 (Jalali.getMonthDay yd).2) := by
  have hr := jalali_bisect_range yd h1
  have hu : GoSem.u8 ((Jalali.bisect yd 0 13 : Nat) : Int) = (Jalali.bisect yd 0 13 : Nat) := GoSem.u8_id (by omega) (by omega)
  have hs := jalali_sum_range ((Jalali.bisect yd 0 13 : Nat) : Int) (by omega) (by omega)
  simp (disch := omega) only [jalali_getMonthDayFromYdays_chk, utils_BisectLeft_chk_eq, utils_BisectLeft_eq, jalali_bisect_eq, bind, Option.bind, pure, hu,
    jalali_sum_idx _ (show (1:Int) ≤ (Jalali.bisect yd 0 13 : Nat) by omega) (by omega), Jalali.getMonthDay, GoSem.chk64_eq]

theorem jalali_IsLeap_chk33 (y : Int) (h0 : -100000000 ≤ y) (h1 : y ≤ 100000000) :
    jalali_IsLeap_chk false y = some (Jalali.isLeap y) := by
  have a := Int.emod_nonneg (y - 979) (show (33:Int) ≠ 0 by decide)
  have b := Int.emod_nonneg (y - 979 + 1) (show (33:Int) ≠ 0 by decide)
  have a' := Int.emod_lt_of_pos (y - 979) (show (0:Int) < 33 by decide)
  have b' := Int.emod_lt_of_pos (y - 979 + 1) (show (0:Int) < 33 by decide)
  simp (disch := omega) only [jalali_IsLeap_chk, utils_Divmod_chk_pos, GoSem.chk64_eq, bind, Option.bind, pure, Jalali.isLeap,
    Bool.false_eq_true, if_false, tdiv_nonneg_eq (show 0 ≤ (y - 979 + 1) % 33 + 3 by omega),
    tdiv_nonneg_eq (show 0 ≤ (y - 979) % 33 + 3 by omega)]

theorem jalali_IsLeap_chk2820 (y : Int) (h0 : -100000000 ≤ y) (h1 : y ≤ 100000000) :
    jalali_IsLeap_chk true y = some (Jalali.isLeap2 y) := by
  have a := Int.emod_nonneg (y - 474) (show (2820:Int) ≠ 0 by decide)
  have a' := Int.emod_lt_of_pos (y - 474) (show (0:Int) < 2820 by decide)
  simp (disch := omega) only [jalali_IsLeap_chk, utils_Mod_chk_pos, GoSem.chk64_eq, bind, Option.bind, pure, Jalali.isLeap2, if_true]

theorem jalali_ToJd_chk33 (y m d : Int) (hy0 : -100000000 ≤ y) (hy1 : y ≤ 100000000) (h1 : 1 ≤ m) (h2 : m ≤ 13)
    (d0 : 0 ≤ d) (d1 : d < 256) : jalali_ToJd_chk false ⟨y, m, d⟩ = some (Jalali.toJd ⟨y, m, d⟩) := by
  have a := Int.emod_nonneg (y - 979) (show (33:Int) ≠ 0 by decide)
  have a' := Int.emod_lt_of_pos (y - 979) (show (0:Int) < 33 by decide)
  have hs := jalali_sum_range m h1 h2
  simp (disch := omega) only [jalali_ToJd_chk, utils_Divmod_chk_pos, utils_Div_chk_pos, GoSem.chk64_eq, bind, Option.bind, pure,
    Jalali.toJd, Bool.false_eq_true, if_false, jalali_sum_idx m h1 h2, Jalali.GREGORIAN_EPOCH]

theorem jalali_ToJd_chk2820 (y m d : Int) (hy0 : -100000000 ≤ y) (hy1 : y ≤ 100000000) (h1 : 1 ≤ m) (h2 : m ≤ 13)
    (d0 : 0 ≤ d) (d1 : d < 256) : jalali_ToJd_chk true ⟨y, m, d⟩ = some (Jalali.toJd2 ⟨y, m, d⟩) := by
  have hu : GoSem.u8 (m - 1) = m - 1 := GoSem.u8_id (by omega) (by omega)
  have a := Int.emod_nonneg (y - 474) (show (2820:Int) ≠ 0 by decide)
  have a' := Int.emod_lt_of_pos (y - 474) (show (0:Int) < 2820 by decide)
  simp (disch := omega) only [jalali_ToJd_chk, utils_Divmod_chk_pos, utils_Div_chk_pos, utils_IntMin_chk_eq, utils_IntMin_eq, intMin,
    GoSem.chk64_eq, bind, Option.bind, pure, Jalali.toJd2, if_true, hu, Jalali.Epoch]

theorem jalali_JdTo_chk33 (jd : Int) (j0 : -1000000000 ≤ jd) (j1 : jd ≤ 1000000000) :
    jalali_JdTo_chk false jd = some ⟨(Jalali.jdTo jd).year, (Jalali.jdTo jd).month, (Jalali.jdTo jd).day⟩ := by
  have hwf := (Jalali.jdTo_spec jd).1
  unfold Jalali.WF at hwf
  have hml := Jalali.monthLen_range (Jalali.jdTo jd).year (Jalali.jdTo jd).month hwf.1 hwf.2.1
  revert hwf hml
  have c0 := Int.emod_nonneg (jd - 1721426 - 584101) (show (12053:Int) ≠ 0 by decide)
  have c0' := Int.emod_lt_of_pos (jd - 1721426 - 584101) (show (0:Int) < 12053 by decide)
  have c1 := Int.emod_nonneg ((jd - 1721426 - 584101) % 12053) (show (1461:Int) ≠ 0 by decide)
  have c1' := Int.emod_lt_of_pos ((jd - 1721426 - 584101) % 12053) (show (0:Int) < 1461 by decide)
  have c2 := Int.emod_nonneg ((jd - 1721426 - 584101) % 12053 % 1461 - 1) (show (365:Int) ≠ 0 by decide)
  have c2' := Int.emod_lt_of_pos ((jd - 1721426 - 584101) % 12053 % 1461 - 1) (show (0:Int) < 365 by decide)
  by_cases h : (jd - 1721426 - 584101) % 12053 % 1461 ≥ 366
  · simp (disch := omega) only [jalali_JdTo_chk, Jalali.jdTo, Jalali.GREGORIAN_EPOCH, utils_Divmod_chk_pos, GoSem.chk64_eq,
      bind, Option.bind, SrcExt.lib_NewDate, Bool.false_eq_true, if_false, decide_eq_true_eq, h, if_true, pure,
      jalali_getMonthDayFromYdays_chk_val]
    intro hwf hml
    rw [GoSem.u8_id (by omega) (by omega)]
  · simp (disch := omega) only [jalali_JdTo_chk, Jalali.jdTo, Jalali.GREGORIAN_EPOCH, utils_Divmod_chk_pos, GoSem.chk64_eq,
      bind, Option.bind, SrcExt.lib_NewDate, Bool.false_eq_true, if_false, decide_eq_true_eq, h, pure,
      jalali_getMonthDayFromYdays_chk_val]
    intro hwf hml
    rw [GoSem.u8_id (by omega) (by omega)]

theorem jalali_GetMonthLen_chk33 (y m : Int) (h0 : -100000000 ≤ y) (h1' : y ≤ 100000000) (h1 : 1 ≤ m) (h2 : m ≤ 12) :
    jalali_GetMonthLen_chk false y m = some (Jalali.monthLen y m) := by
  have : m = 1 ∨ m = 2 ∨ m = 3 ∨ m = 4 ∨ m = 5 ∨ m = 6 ∨ m = 7 ∨ m = 8 ∨ m = 9 ∨ m = 10 ∨ m = 11 ∨ m = 12 := by omega
  simp only [jalali_GetMonthLen_chk, jalali_IsLeap_chk33 y h0 h1', Jalali.monthLen, bind, Option.bind, pure]
  rcases this with h|h|h|h|h|h|h|h|h|h|h|h <;> subst h <;> first | decide | (cases Jalali.isLeap y <;> decide)

theorem jalali_GetMonthLen_chk2820 (y m : Int) (h0 : -100000000 ≤ y) (h1' : y ≤ 100000000) (h1 : 1 ≤ m) (h2 : m ≤ 12) :
    jalali_GetMonthLen_chk true y m = some (Jalali.monthLen2 y m) := by
  have : m = 1 ∨ m = 2 ∨ m = 3 ∨ m = 4 ∨ m = 5 ∨ m = 6 ∨ m = 7 ∨ m = 8 ∨ m = 9 ∨ m = 10 ∨ m = 11 ∨ m = 12 := by omega
  simp only [jalali_GetMonthLen_chk, jalali_IsLeap_chk2820 y h0 h1', Jalali.monthLen2, bind, Option.bind, pure]
  rcases this with h|h|h|h|h|h|h|h|h|h|h|h <;> subst h <;> first | decide | (cases Jalali.isLeap2 y <;> decide)

theorem jalali33_checked : TranslatesChecked Drv.calJal33 (jalali_ToJd_chk false) (jalali_JdTo_chk false)
    (jalali_IsLeap_chk false) (jalali_GetMonthLen_chk false) where
  jdTo_eq jd h0 h1 := jalali_JdTo_chk33 jd h0 h1
  toJd_eq y m d hy0 hy1 m1 m2 d0 d1 := jalali_ToJd_chk33 y m d hy0 hy1 m1 (by omega) d0 d1
  isLeap_eq y h0 h1 := jalali_IsLeap_chk33 y h0 h1
  monthLen_eq y m h0 h1 m1 m2 := jalali_GetMonthLen_chk33 y m h0 h1 m1 m2

theorem jalali_JdTo_chk2820 (jd : Int) (j0 : -1000000000 ≤ jd) (j1 : jd ≤ 1000000000) :
    jalali_JdTo_chk true jd = some ⟨(Jalali.jdTo2 jd).year, (Jalali.jdTo2 jd).month, (Jalali.jdTo2 jd).day⟩ := by
  have hwf := (Jalali.jdTo2_spec jd).1
  unfold Jalali.WF2 at hwf
  have hml := Jalali.monthLen2_range (Jalali.jdTo2 jd).year (Jalali.jdTo2 jd).month hwf.1 hwf.2.1
  have hs := jalali_sum_range (Jalali.jdTo2 jd).month hwf.1 (by omega)
  revert hwf hml hs
  have e475 := Jalali.toJd2_475
  have c0 := Int.emod_nonneg (jd - Jalali.toJd2 ⟨475, 1, 1⟩) (show (1029983:Int) ≠ 0 by decide)
  have c0' := Int.emod_lt_of_pos (jd - Jalali.toJd2 ⟨475, 1, 1⟩) (show (0:Int) < 1029983 by decide)
  by_cases h : (jd - Jalali.toJd2 ⟨475, 1, 1⟩) % 1029983 = 1029982
  · simp only [Jalali.jdTo2, h, if_true, Jalali.getMonthDay]
    intro hwf hml hs
    simp (disch := omega) only [jalali_JdTo_chk, if_true, SrcExt.lib_NewDate, jalali_ToJd_chk2820, GoSem.chk64_eq,
      utils_Divmod_chk_pos, bind, Option.bind, pure, h, decide_true, jalali_getMonthDayFromYdays_chk_val, Jalali.getMonthDay]
    rw [GoSem.u8_id (by omega) (by omega)]
  · simp only [Jalali.jdTo2, h, if_false, Jalali.getMonthDay, Starcal.ycycle]
    intro hwf hml hs
    simp (disch := omega) only [jalali_JdTo_chk, if_true, SrcExt.lib_NewDate, jalali_ToJd_chk2820, GoSem.chk64_eq,
      utils_Divmod_chk_pos, utils_Div_chk_pos, bind, Option.bind, pure, h, decide_false, Bool.false_eq_true, if_false,
      tdiv_nonneg_eq c0, jalali_getMonthDayFromYdays_chk_val, Jalali.getMonthDay]
    rw [GoSem.u8_id (by omega) (by omega)]

theorem jalali2820_checked : TranslatesChecked Drv.calJal2820 (jalali_ToJd_chk true) (jalali_JdTo_chk true)
    (jalali_IsLeap_chk true) (jalali_GetMonthLen_chk true) where
  jdTo_eq jd h0 h1 := jalali_JdTo_chk2820 jd h0 h1
  toJd_eq y m d hy0 hy1 m1 m2 d0 d1 := jalali_ToJd_chk2820 y m d hy0 hy1 m1 (by omega) d0 d1
  isLeap_eq y h0 h1 := jalali_IsLeap_chk2820 y h0 h1
  monthLen_eq y m h0 h1 m1 m2 := jalali_GetMonthLen_chk2820 y m h0 h1 m1 m2

/-! ### ethiopian -/

theorem ethiopian_IsLeap_chk_val (y : Int) (h0 : -100000000 ≤ y) (h1 : y ≤ 100000000) :
    ethiopian_IsLeap_chk y = some (Ethiopian.isLeap y) := by
  simp (disch := omega) only [ethiopian_IsLeap_chk, GoSem.chk64_eq, bind, Option.bind, Ethiopian.isLeap, pure,
    tmod_zero_iff (y + 1) 4 (by decide), int_beq]

theorem ethiopian_ToJd_chk_val (y m d : Int) (hy0 : -100000000 ≤ y) (hy1 : y ≤ 100000000) (h1 : 1 ≤ m) (h2 : m ≤ 256)
    (d0 : 0 ≤ d) (d1 : d < 256) : ethiopian_ToJd_chk ⟨y, m, d⟩ = some (Ethiopian.toJd ⟨y, m, d⟩) := by
  have hu : GoSem.u8 (m - 1) = m - 1 := GoSem.u8_id (by omega) (by omega)
  simp (disch := omega) only [ethiopian_ToJd_chk, utils_Div_chk_pos, GoSem.chk64_eq, bind, Option.bind, pure, Ethiopian.toJd, hu,
    Ethiopian.Epoch]

theorem ethiopian_GetMonthLen_chk_val (y m : Int) (h0 : -100000000 ≤ y) (h1' : y ≤ 100000000) (h1 : 1 ≤ m) (h2 : m ≤ 12) :
    ethiopian_GetMonthLen_chk y m = some (Ethiopian.monthLen y m) := by
  have : m = 1 ∨ m = 2 ∨ m = 3 ∨ m = 4 ∨ m = 5 ∨ m = 6 ∨ m = 7 ∨ m = 8 ∨ m = 9 ∨ m = 10 ∨ m = 11 ∨ m = 12 := by omega
  simp only [ethiopian_GetMonthLen_chk, ethiopian_IsLeap_chk_val y h0 h1', Ethiopian.monthLen, bind, Option.bind, pure]
  rcases this with h|h|h|h|h|h|h|h|h|h|h|h <;> subst h <;> first | decide | (cases Ethiopian.isLeap y <;> decide)

theorem ethiopian_JdTo_chk_val (jd : Int) (j0 : -1000000000 ≤ jd) (j1 : jd ≤ 1000000000) :
    ethiopian_JdTo_chk jd = some ⟨(Ethiopian.jdTo jd).year, (Ethiopian.jdTo jd).month, (Ethiopian.jdTo jd).day⟩ := by
  have hwf := (Ethiopian.jdTo_spec jd).1
  unfold Ethiopian.WF at hwf
  have hml : Ethiopian.monthLen (Ethiopian.jdTo jd).year (Ethiopian.jdTo jd).month ≤ 36 := by
    unfold Ethiopian.monthLen; split <;> (try split) <;> omega
  revert hwf hml
  have c0 := Int.emod_nonneg (jd - 1724235) (show (1461:Int) ≠ 0 by decide)
  have c0' := Int.emod_lt_of_pos (jd - 1724235) (show (0:Int) < 1461 by decide)
  have hy := ethiopian_yearday_nonneg jd
  -- the day of the year is also below 400
  have hy2 : jd - Ethiopian.toJd ⟨(jd - 1724235) / 1461 * 4 +
      (if 3 < (jd - 1724235) % 1461 / 365 then 3 else (jd - 1724235) % 1461 / 365) + 1, 1, 1⟩ ≤ 400 := by
    have hs := (Ethiopian.jdTo_spec jd)
    generalize hq : (jd - 1724235) / 1461 = q
    generalize hr : (jd - 1724235) % 1461 = r
    have hr0 : 0 ≤ r ∧ r < 1461 := by omega
    generalize hyi : (if 3 < r / 365 then 3 else r / 365) = yi
    have hyi0 : 0 ≤ yi ∧ yi ≤ 3 ∧ 365 * yi ≤ r ∧ (yi < 3 → r < 365 * yi + 365) := by
      rw [← hyi]; split <;> omega
    rw [Ethiopian.yearStart q yi hyi0.1 hyi0.2.1]
    have e : Ethiopian.Epoch = 1724235 := rfl
    split <;> omega
  simp only [Ethiopian.jdTo, Ethiopian.jdToWith]
  delta Ethiopian.Epoch
  simp (disch := omega) only [ethiopian_JdTo_chk, utils_Divmod_chk_pos, utils_IntMin_chk_eq, utils_IntMin_eq, intMin, tdiv_nonneg_eq c0,
    GoSem.chk64_eq, ethiopian_ToJd_chk_val, ethiopian_IsLeap_chk_val, SrcExt.lib_NewDate, bind, Option.bind, pure,
    tdiv_nonneg_eq hy, tmod_nonneg_eq hy]
  have hyr : -10000000 ≤ (jd - 1724235) / 1461 * 4 + (if 3 < (jd - 1724235) % 1461 / 365 then 3 else (jd - 1724235) % 1461 / 365) + 1 ∧
      (jd - 1724235) / 1461 * 4 + (if 3 < (jd - 1724235) % 1461 / 365 then 3 else (jd - 1724235) % 1461 / 365) + 1 ≤ 10000000 := by
    split <;> omega
  generalize (jd - 1724235) / 1461 * 4 + (if 3 < (jd - 1724235) % 1461 / 365 then 3 else (jd - 1724235) % 1461 / 365) + 1 = year at hy hy2 hyr ⊢
  generalize jd - Ethiopian.toJd ⟨year, 1, 1⟩ = yd at hy hy2 ⊢
  by_cases h13 : yd / 30 + 1 = 13 <;> by_cases h12 : yd / 30 + 1 = 12 <;> cases hl : Ethiopian.isLeap year <;>
    simp (disch := omega) [h13, h12, hl, GoSem.chk64_eq]
  all_goals ((try simp only [some_ite]); (try split) <;> simp [GoSem.u8] <;> omega)

theorem ethiopian_checked : TranslatesChecked Drv.calEth ethiopian_ToJd_chk ethiopian_JdTo_chk ethiopian_IsLeap_chk ethiopian_GetMonthLen_chk where
  jdTo_eq jd h0 h1 := ethiopian_JdTo_chk_val jd h0 h1
  toJd_eq y m d hy0 hy1 m1 m2 d0 d1 := ethiopian_ToJd_chk_val y m d hy0 hy1 m1 (by omega) d0 d1
  isLeap_eq y h0 h1 := ethiopian_IsLeap_chk_val y h0 h1
  monthLen_eq y m h0 h1 m1 m2 := ethiopian_GetMonthLen_chk_val y m h0 h1 m1 m2

/-! ### gregorian_proleptic -/

theorem gprol_IsLeap_chk_val (y : Int) (h0 : -100000000 ≤ y) (h1 : y ≤ 100000000) : gprol_IsLeap_chk y = some (pIsLeap y) := by
  simp (disch := omega) only [gprol_IsLeap_chk, pIsLeap, relIn, gIsLeap, bind, Option.bind, pure, GoSem.chk64_eq]
  by_cases h : y < 1
  · simp (disch := omega) [h, GoSem.chk64_eq, tmod_zero_iff (y + 1) 4 (by decide), tmod_zero_iff (y + 1) 100 (by decide),
      tmod_zero_iff (y + 1) 400 (by decide)]
  · simp [h, tmod_zero_iff y 4 (by decide), tmod_zero_iff y 100 (by decide), tmod_zero_iff y 400 (by decide)]

theorem gprol_ToJd_chk_val (y m d : Int) (hy0 : -100000000 ≤ y) (hy1 : y ≤ 100000000) (m0 : 0 ≤ m) (m1 : m < 256)
    (d0 : 0 ≤ d) (d1 : d < 256) : gprol_ToJd_chk ⟨y, m, d⟩ = some (pToJd ⟨y, m, d⟩) := by
  by_cases h3 : m < 3 <;> by_cases h1 : y < 1 <;>
    simp (disch := omega) [gprol_ToJd_chk, pToJd, utils_Div_chk_pos, GoSem.chk64_eq, bind, Option.bind, pure, h3, h1]

theorem gprol_GetMonthLen_chk_val (y m : Int) (h0 : -100000000 ≤ y) (h1' : y ≤ 100000000) (h1 : 1 ≤ m) (h2 : m ≤ 12) :
    gprol_GetMonthLen_chk y m = some (pMonthLen y m) := by
  have : m = 1 ∨ m = 2 ∨ m = 3 ∨ m = 4 ∨ m = 5 ∨ m = 6 ∨ m = 7 ∨ m = 8 ∨ m = 9 ∨ m = 10 ∨ m = 11 ∨ m = 12 := by omega
  simp only [gprol_GetMonthLen_chk, gprol_IsLeap_chk_val y h0 h1', pMonthLen, gMonthLen, pIsLeap, bind, Option.bind, pure]
  rcases this with h|h|h|h|h|h|h|h|h|h|h|h <;> subst h <;> first | decide | (cases gIsLeap (relIn y) <;> decide)

theorem gprol_JdTo_chk_val (jd : Int) (j0 : -1000000000 ≤ jd) (j1 : jd ≤ 1000000000) :
    gprol_JdTo_chk jd = some ⟨(pJdTo jd).year, (pJdTo jd).month, (pJdTo jd).day⟩ := by
  have hwf := gJdTo_WF jd
  unfold gWF at hwf
  have hml := gMonthLen_range (gJdTo jd).year (gJdTo jd).month hwf.1 hwf.2.1
  have key : gprol_JdTo_chk jd =
      some ⟨relOut (gJdTo jd).year, GoSem.u8 (gJdTo jd).month, GoSem.u8 (gJdTo jd).day⟩ := by
    simp (disch := omega) only [gprol_JdTo_chk, gJdTo, relOut, utils_Div_chk_pos, GoSem.chk64_eq, SrcExt.lib_NewDate, bind,
      Option.bind, pure, decide_eq_true_eq, some_ite]
    rfl
  rw [key, GoSem.u8_id (by omega) (by omega), GoSem.u8_id (by omega) (by omega)]
  simp only [pJdTo]

theorem gprol_checked : TranslatesChecked Drv.calGprol gprol_ToJd_chk gprol_JdTo_chk gprol_IsLeap_chk gprol_GetMonthLen_chk where
  jdTo_eq jd h0 h1 := gprol_JdTo_chk_val jd h0 h1
  toJd_eq y m d hy0 hy1 m1 m2 d0 d1 := gprol_ToJd_chk_val y m d hy0 hy1 (by omega) (by omega) d0 d1
  isLeap_eq y h0 h1 := gprol_IsLeap_chk_val y h0 h1
  monthLen_eq y m h0 h1 m1 m2 := gprol_GetMonthLen_chk_val y m h0 h1 m1 m2

/-! ### indian_national (its gregorian calls are the external model of SrcExt.lean: unbounded by construction) -/

theorem indian_IsLeap_chk_val (y : Int) (h0 : -100000000 ≤ y) (h1 : y ≤ 100000000) : indian_IsLeap_chk y = some (iIsLeap y) := by
  simp (disch := omega) only [indian_IsLeap_chk, SrcExt.gregorian_IsLeap, iIsLeap, GoSem.chk64_eq, bind, Option.bind]

theorem indian_GetMonthLen_chk_val (y m : Int) (h0 : -100000000 ≤ y) (h1 : y ≤ 100000000) :
    indian_GetMonthLen_chk y m = some (iMonthLen y m) := by
  simp only [indian_GetMonthLen_chk, indian_IsLeap_chk_val y h0 h1, iMonthLen, bind, Option.bind, pure]
  by_cases h1 : m = 1 <;> by_cases h2 : 2 ≤ m <;> by_cases h6 : m ≤ 6 <;> cases iIsLeap y <;> simp [h1, h2, h6]

theorem gToJd_bound (y m d : Int) (h0 : -100000100 ≤ y) (h1 : y ≤ 100000100) (m1 : 1 ≤ m) (m2 : m ≤ 12)
    (d0 : 0 ≤ d) (d1 : d < 256) : -40000000000 ≤ gToJd ⟨y, m, d⟩ ∧ gToJd ⟨y, m, d⟩ ≤ 40000000000 := by
  simp only [gToJd]
  split <;> omega

theorem indian_ToJd_chk_val (y m d : Int) (h0 : -100000000 ≤ y) (h1 : y ≤ 100000000) (m1 : 1 ≤ m) (m2 : m ≤ 12)
    (d0 : 0 ≤ d) (d1 : d < 256) : indian_ToJd_chk ⟨y, m, d⟩ = some (iToJd ⟨y, m, d⟩) := by
  have b1 := gToJd_bound (y + 78) 3 21 (by omega) (by omega) (by omega) (by omega) (by omega) (by omega)
  have b2 := gToJd_bound (y + 78) 3 22 (by omega) (by omega) (by omega) (by omega) (by omega) (by omega)
  simp (disch := omega) only [indian_ToJd_chk, indian_IsLeap_chk_val y h0 h1, iToJd, SrcExt.gregorian_ToJd, SrcExt.lib_NewDate,
    GoSem.chk64_eq, bind, Option.bind, pure, decide_eq_true_eq]
  cases iIsLeap y <;> by_cases hm1 : m = 1 <;> by_cases h6 : m ≤ 6 <;>
    simp (disch := omega) [hm1, h6, GoSem.chk64_eq]

theorem gJdTo_year_bound (jd : Int) (h0 : -1000000000 ≤ jd) (h1 : jd ≤ 1000000000) :
    -3000000 ≤ (gJdTo jd).year ∧ (gJdTo jd).year ≤ 3000000 := by
  simp only [gJdTo]
  omega

theorem indian_JdTo_chk_val (jd : Int) (h0 : -1000000000 ≤ jd) (h1 : jd ≤ 1000000000) :
    indian_JdTo_chk jd = some ⟨(iJdTo jd).year, (iJdTo jd).month, (iJdTo jd).day⟩ := by
  rw [← indian_JdTo_eq jd]
  have gyb := gJdTo_year_bound jd h0 h1
  have br : gToJd ⟨(gJdTo jd).year, 1, 1⟩ ≤ jd ∧ jd < gToJd ⟨(gJdTo jd).year, 1, 1⟩ + 366 := by
    have := gYear_bracket jd
    rw [gYearLen] at this
    split at this <;> omega
  revert gyb br
  simp only [indian_JdTo_chk, indian_JdTo, SrcExt.gregorian_ToJd, SrcExt.gregorian_JdTo, SrcExt.lib_NewDate,
    bind, Option.bind, pure]
  generalize gToJd ⟨(gJdTo jd).year, 1, 1⟩ = j1
  generalize (gJdTo jd).year = gy
  intro gyb br
  simp (disch := omega) only [GoSem.chk64_eq]
  by_cases hd : jd - j1 + 1 > 80
  · simp (disch := omega) only [hd, decide_true, if_true, GoSem.chk64_eq, indian_IsLeap_chk_val, indian_IsLeap_eq]
    cases iIsLeap (gy - 78) <;> simp (disch := omega) only [Bool.false_eq_true, if_true, if_false, GoSem.chk64_eq,
      tdiv_nonneg_eq, Int.reduceAdd, decide_eq_true_eq] <;> split <;> (try split) <;>
      simp (disch := omega) only [GoSem.chk64_eq, tdiv_nonneg_eq]
  · simp (disch := omega) only [hd, decide_false, Bool.false_eq_true, if_false, GoSem.chk64_eq, indian_IsLeap_chk_val, indian_IsLeap_eq]
    cases iIsLeap (gy - 79) <;> simp (disch := omega) only [Bool.false_eq_true, if_true, if_false, GoSem.chk64_eq,
      tdiv_nonneg_eq, Int.reduceAdd, decide_eq_true_eq] <;> split <;> (try split) <;>
      simp (disch := omega) only [GoSem.chk64_eq, tdiv_nonneg_eq]

theorem indian_checked : TranslatesChecked Drv.calInd indian_ToJd_chk indian_JdTo_chk indian_IsLeap_chk indian_GetMonthLen_chk where
  jdTo_eq jd h0 h1 := indian_JdTo_chk_val jd h0 h1
  toJd_eq y m d hy0 hy1 m1 m2 d0 d1 := indian_ToJd_chk_val y m d hy0 hy1 m1 m2 d0 d1
  isLeap_eq y h0 h1 := indian_IsLeap_chk_val y h0 h1
  monthLen_eq y m h0 h1 _ _ := indian_GetMonthLen_chk_val y m h0 h1

/-! ### hijri, arithmetic mode (float64 rendered as exact rationals; `ftoi` of an integer-valued rational is exact) -/

theorem hijri_IsLeap_chk_val (y : Int) (h0 : -100000000 ≤ y) (h1 : y ≤ 100000000) :
    hijri_IsLeap_chk y = some (Hijri.isLeap y) := by
  rw [← hijri_IsLeap_eq y]
  simp (disch := omega) only [hijri_IsLeap_chk, hijri_IsLeap, GoSem.chk64_eq, utils_Mod_chk_pos, utils_Mod_pos, bind, Option.bind, pure]

theorem hijri_ToJd_chk_val (y m d : Int) (h0 : -100000000 ≤ y) (h1 : y ≤ 100000000) (m1 : 1 ≤ m) (m2 : m ≤ 256)
    (d0 : 0 ≤ d) (d1 : d < 256) : hijri_ToJd_chk ⟨y, m, d⟩ = some (Hijri.toJd ⟨y, m, d⟩) := by
  have hu : GoSem.u8 (m - 1) = m - 1 := GoSem.u8_id (by omega) (by omega)
  simp (disch := omega) only [hijri_ToJd_chk, utils_Div_chk_pos, GoSem.chk64_eq, bind, Option.bind, pure, Hijri.toJd, Hijri.monthOff, hu,
    ceil_half59, ftoi_intCast, Hijri.Epoch]

theorem hijri_GetMonthLen_chk_val (y m : Int) (h0 : -100000000 ≤ y) (h1 : y ≤ 100000000) (m1 : 1 ≤ m) (m2 : m ≤ 12) :
    hijri_GetMonthLen_chk y m = some (Hijri.monthLen y m) := by
  have : m = 1 ∨ m = 2 ∨ m = 3 ∨ m = 4 ∨ m = 5 ∨ m = 6 ∨ m = 7 ∨ m = 8 ∨ m = 9 ∨ m = 10 ∨ m = 11 ∨ m = 12 := by omega
  simp only [hijri_GetMonthLen_chk, hijri_IsLeap_chk_val y h0 h1, Hijri.monthLen, bind, Option.bind, pure]
  rcases this with h|h|h|h|h|h|h|h|h|h|h|h <;> subst h <;> first | decide | (cases Hijri.isLeap y <;> decide)

theorem hijri_JdTo_chk_val (jd : Int) (h0 : -1000000000 ≤ jd) (h1 : jd ≤ 1000000000) :
    hijri_JdTo_chk jd = some ⟨(Hijri.jdTo jd).year, (Hijri.jdTo jd).month, (Hijri.jdTo jd).day⟩ := by
  have hwf := (Hijri.jdTo_spec jd).1
  unfold Hijri.WF at hwf
  have hml := Hijri.monthLen_range (Hijri.jdTo jd).year (Hijri.jdTo jd).month
  revert hwf hml
  simp only [Hijri.jdTo]
  delta Hijri.Epoch
  have hy : -3000000 ≤ (30 * (jd - 1 - 1948440) + 10646) / 10631 ∧ (30 * (jd - 1 - 1948440) + 10646) / 10631 ≤ 3000000 := by omega
  revert hy
  simp (disch := omega) only [hijri_JdTo_chk, GoSem.chk64_eq, utils_Div_chk_pos, SrcExt.lib_NewDate, bind, Option.bind, pure]
  generalize (30 * (jd - 1 - 1948440) + 10646) / 10631 = year
  intro hy
  simp only [hijri_ToJd_chk_val year 1 1 (by omega) (by omega) (by decide) (by decide) (by decide) (by decide)]
  simp only [SrcExt.lib_NewDate, bind, Option.bind, pure, ceil_month, ftoi_intCast, utils_IntMin_chk_eq, utils_IntMin_eq, intMin]
  generalize (if 12 < (2 * (jd - Hijri.toJd ⟨year, 1, 1⟩) + 1 + 58) / 59 then 12
    else (2 * (jd - Hijri.toJd ⟨year, 1, 1⟩) + 1 + 58) / 59) = mo
  intro hwf hml
  rw [GoSem.u8_id (x := mo) (by omega) (by omega)]
  have hb : -40000000000 ≤ Hijri.toJd ⟨year, mo, 1⟩ ∧ Hijri.toJd ⟨year, mo, 1⟩ ≤ 40000000000 := by
    simp only [Hijri.toJd, Hijri.monthOff]
    delta Hijri.Epoch
    omega
  rw [hijri_ToJd_chk_val year mo 1 (by omega) (by omega) hwf.1 (by omega) (by decide) (by decide)]
  revert hb hwf hml
  generalize Hijri.toJd ⟨year, mo, 1⟩ = j1
  intro hb hwf hml
  simp (disch := omega) only [GoSem.chk64_eq]
  rw [GoSem.u8_id (by omega) (by omega)]

theorem hijri_checked : TranslatesChecked Drv.calHijA hijri_ToJd_chk hijri_JdTo_chk hijri_IsLeap_chk hijri_GetMonthLen_chk where
  jdTo_eq jd h0 h1 := hijri_JdTo_chk_val jd h0 h1
  toJd_eq y m d hy0 hy1 m1 m2 d0 d1 := hijri_ToJd_chk_val y m d hy0 hy1 m1 (by omega) d0 d1
  isLeap_eq y h0 h1 := hijri_IsLeap_chk_val y h0 h1
  monthLen_eq y m h0 h1 m1 m2 := hijri_GetMonthLen_chk_val y m h0 h1 m1 m2

/-- all seven translated calendar configurations: on |jd| ≤ 10^9 (the property's sweep domain is ±4·10^7) and
    |year| ≤ 10^8 no intermediate `int` value of today's source leaves 64 bits, and the result is the model's -/
theorem all_checked :
    TranslatesChecked Drv.calJul julian_ToJd_chk julian_JdTo_chk julian_IsLeap_chk julian_GetMonthLen_chk ∧
    TranslatesChecked Drv.calJal33 (jalali_ToJd_chk false) (jalali_JdTo_chk false) (jalali_IsLeap_chk false) (jalali_GetMonthLen_chk false) ∧
    TranslatesChecked Drv.calJal2820 (jalali_ToJd_chk true) (jalali_JdTo_chk true) (jalali_IsLeap_chk true) (jalali_GetMonthLen_chk true) ∧
    TranslatesChecked Drv.calEth ethiopian_ToJd_chk ethiopian_JdTo_chk ethiopian_IsLeap_chk ethiopian_GetMonthLen_chk ∧
    TranslatesChecked Drv.calGprol gprol_ToJd_chk gprol_JdTo_chk gprol_IsLeap_chk gprol_GetMonthLen_chk ∧
    TranslatesChecked Drv.calInd indian_ToJd_chk indian_JdTo_chk indian_IsLeap_chk indian_GetMonthLen_chk ∧
    TranslatesChecked Drv.calHijA hijri_ToJd_chk hijri_JdTo_chk hijri_IsLeap_chk hijri_GetMonthLen_chk :=
  ⟨julian_checked, jalali33_checked, jalali2820_checked, ethiopian_checked, gprol_checked, indian_checked, hijri_checked⟩

/-- non-vacuity: the checked copy really refuses an overflowing call (it is not the unchecked copy renamed) -/
example : julian_ToJd_chk ⟨9000000000000000000, 1, 1⟩ = none := by decide

end Starcal.SrcTie
