import Starcal.SrcTie.Interval
import Starcal.Props.C05
/-! Source tie, interval.Normalize: `IntervalList.GetPointList`, `IntervalPointList.GetIntervalList` (with the
    `utils/stack` Push / Pop it uses) and `IntervalList.Normalize`, as translated from today's source (loops with state
    over slices: `GoSem.forFold`, `make`, `append`, `xs[i] = v`, `s[:n]`), are the model's `pointsOf`, `sweep` and
    `normalize` of Ival.lean — the functions C05's theorems are about. `sort.Sort` is the external `SrcExt.sortWith`
    (insertion sort by the translated `Less`), shown here to be the model's `sortPts`. -/
namespace Starcal.SrcTie
open Starcal Starcal.Gen.Src Starcal.Ival

/-- an interval of the translated code as an interval of the model -/
def toIv (i : interval_Interval) : Interval := ⟨i.Start, i.End, i.ClosedEnd⟩

/-! ### GetPointList -/

def srcStart (lid : Int) (i : interval_Interval) : interval_IntervalPoint := { Pos := i.Start, IsEnd := false, Closed := true, ListId := lid }
def srcEnd (lid : Int) (i : interval_Interval) : interval_IntervalPoint := { Pos := i.End, IsEnd := true, Closed := i.ClosedEnd, ListId := lid }

def srcPts (lid : Int) : List interval_Interval → List interval_IntervalPoint
  | [] => []
  | i :: l => srcStart lid i :: srcEnd lid i :: srcPts lid l

theorem srcPts_model (lid : Int) (l : List interval_Interval) :
    (srcPts lid l).map toPoint = pointsOf lid.toNat (l.map toIv) := by
  induction l with
  | nil => rfl
  | cons i l ih => simp [srcPts, pointsOf, ih, toPoint, toIv, srcStart, srcEnd, startPt, endPt]

theorem srcPts_lid (lid : Int) (l : List interval_Interval) : ∀ p ∈ srcPts lid l, p.ListId = lid := by
  induction l with
  | nil => simp [srcPts]
  | cons i l ih =>
    intro p hp
    simp only [srcPts, List.mem_cons] at hp
    rcases hp with h | h | h
    · subst h; rfl
    · subst h; rfl
    · exact ih p h

theorem set_at_len {α : Type} (d r : List α) (a v : α) : (d ++ a :: r).set d.length v = d ++ v :: r := by
  induction d with
  | nil => rfl
  | cons x d ih => simp [ih]

theorem setA_at_len {α : Type} (d r : List α) (a v : α) (k : Int) (hk : k = d.length) :
    GoSem.setA (d ++ a :: r) k v = some (d ++ v :: r) := by
  subst hk
  have h1 : (0 : Int) ≤ (d.length : Int) := Int.natCast_nonneg _
  have h2 : (d.length : Int) < ((d ++ a :: r).length : Int) := by simp; omega
  simp only [GoSem.setA, h1, h2, and_self, if_true, Int.toNat_natCast, set_at_len]

/-- the body of the loop of GetPointList -/
def gplBody (lid : Int) : List interval_IntervalPoint → Int → interval_Interval →
    Option (GoSem.Flow (List interval_IntervalPoint) Empty) :=
  fun points ii interval => do
    let points ← GoSem.setA points (2 * ii) (srcStart lid interval)
    let points ← GoSem.setA points ((2 * ii) + 1) (srcEnd lid interval)
    pure (GoSem.Flow.next points)

/-- the loop of GetPointList, started after `m` intervals have been written -/
theorem getPointList_loop (lid : Int) (z : interval_IntervalPoint) (l : List interval_Interval) :
    ∀ (done : List interval_IntervalPoint) (m : Nat), done.length = 2 * m →
    GoSem.forFold (gplBody lid) l (m : Int) (done ++ List.replicate (2 * l.length) z)
      = some (GoSem.Flow.next (done ++ srcPts lid l)) := by
  induction l with
  | nil => intro done m _; simp [GoSem.forFold, srcPts]
  | cons x xs ih =>
    intro done m hm
    have hr : List.replicate (2 * (x :: xs).length) z = z :: z :: List.replicate (2 * xs.length) z := by
      have : 2 * (x :: xs).length = 2 * xs.length + 1 + 1 := by simp; omega
      rw [this, List.replicate_succ, List.replicate_succ]
    have e1 : GoSem.setA (done ++ z :: z :: List.replicate (2 * xs.length) z) (2 * (m : Int)) (srcStart lid x)
        = some (done ++ srcStart lid x :: z :: List.replicate (2 * xs.length) z) :=
      setA_at_len _ _ _ _ _ (by omega)
    have e2 : GoSem.setA (done ++ srcStart lid x :: z :: List.replicate (2 * xs.length) z) (2 * (m : Int) + 1) (srcEnd lid x)
        = some ((done ++ [srcStart lid x]) ++ srcEnd lid x :: List.replicate (2 * xs.length) z) := by
      have := setA_at_len (done ++ [srcStart lid x]) (List.replicate (2 * xs.length) z) z (srcEnd lid x) (2 * (m : Int) + 1)
        (by simp; omega)
      simpa using this
    have hf : gplBody lid (done ++ z :: z :: List.replicate (2 * xs.length) z) (m : Int) x
        = some (GoSem.Flow.next ((done ++ [srcStart lid x, srcEnd lid x]) ++ List.replicate (2 * xs.length) z)) := by
      simp only [gplBody, e1, e2, bind, Option.bind, pure]
      simp
    have ih' := ih (done ++ [srcStart lid x, srcEnd lid x]) (m + 1) (by simp; omega)
    have hc : ((m : Int) + 1) = ((m + 1 : Nat) : Int) := by omega
    rw [hr]
    simp only [GoSem.forFold, hf, hc, ih']
    simp [srcPts]

theorem interval_GetPointList_eq (l : List interval_Interval) (lid : Int) :
    interval_GetPointList l lid = some (srcPts lid l) := by
  have hdef : interval_GetPointList l lid = (do
      let points ← GoSem.mkLen (2 * (l.length : Int)) ({ Pos := 0, IsEnd := false, Closed := false, ListId := 0 } : interval_IntervalPoint)
      let r ← GoSem.forFold (gplBody lid) l 0 points
      match r with
      | GoSem.Flow.ret v => nomatch v
      | GoSem.Flow.next points => pure points) := rfl
  have h := getPointList_loop lid { Pos := 0, IsEnd := false, Closed := false, ListId := 0 } l [] 0 rfl
  have h0 : ((0 : Nat) : Int) = 0 := rfl
  rw [h0] at h
  have hn : ¬ (2 * (l.length : Int) < 0) := by omega
  have ht : (2 * (l.length : Int)).toNat = 2 * l.length := by omega
  simp only [List.nil_append] at h
  rw [hdef]
  simp only [GoSem.mkLen, hn, if_false, ht, bind, Option.bind, h, pure]

/-! ### the stack -/

theorem stack_Pop_concat (init : List Int) (top : Int) : stack_Pop (init ++ [top]) = some (init, top) := by
  have h1 : (0 : Int) ≤ ((init ++ [top]).length : Int) - 1 := by simp
  have h2 : ((init ++ [top]).length : Int) - 1 ≤ ((init ++ [top]).length : Int) := by omega
  have h3 : (((init ++ [top]).length : Int) - 1).toNat = init.length := by simp
  simp only [stack_Pop, GoSem.takeA, GoSem.idx, h1, h2, and_self, if_true, h3, bind, Option.bind, pure]
  simp

/-! ### GetIntervalList = the model's sweep -/

/-- the state of the loop of GetIntervalList against the state of the model (stack head = top, output reversed) -/
def StRel (list : List interval_Interval) (stk : List Int) (st : St) : Prop :=
  st.1 = stk.reverse ∧ st.2 = (list.map toIv).reverse

abbrev gilBody : (List interval_Interval × List Int × Int) → Int → interval_IntervalPoint →
    Option (GoSem.Flow (List interval_Interval × List Int × Int) (Option (List interval_Interval))) :=
  fun (list, startedStack, start) _i point => do
    if (!(point).IsEnd) then
      let startedStack ← (stack_Push startedStack (point).Pos)
      pure (GoSem.Flow.next (list, startedStack, start))
    else
      if (decide (((startedStack).length : Int) = 0)) then
        pure (GoSem.Flow.ret none)
      else
        let (startedStack, start) ← (stack_Pop startedStack)
        if (decide (((startedStack).length : Int) = 0)) then
          let list := (list ++ [({ Start := start, End := (point).Pos, ClosedEnd := (point).Closed } : interval_Interval)])
          pure (GoSem.Flow.next (list, startedStack, start))
        else
          pure (GoSem.Flow.next (list, startedStack, start))

/-- one iteration: the code's loop body against the model's `stepN` -/
theorem gil_step (p : interval_IntervalPoint) (list : List interval_Interval) (stk : List Int) (start i : Int) (st : St)
    (h : StRel list stk st) :
    (stepN st (toPoint p) = none ∧ gilBody (list, stk, start) i p = some (GoSem.Flow.ret none)) ∨
    (∃ st' list' stk' start', stepN st (toPoint p) = some st' ∧
      gilBody (list, stk, start) i p = some (GoSem.Flow.next (list', stk', start')) ∧ StRel list' stk' st') := by
  obtain ⟨h1, h2⟩ := h
  obtain ⟨s1, s2⟩ := st
  simp only at h1 h2
  subst h1 h2
  by_cases he : p.IsEnd = false
  · right
    refine ⟨(p.Pos :: stk.reverse, (list.map toIv).reverse), list, stk ++ [p.Pos], start, ?_, ?_, ⟨by simp, rfl⟩⟩
    · simp [stepN, toPoint, he]
    · simp [gilBody, he, stack_Push, bind, Option.bind, pure]
  · have he' : p.IsEnd = true := by cases h : p.IsEnd <;> simp_all
    rcases List.eq_nil_or_concat stk with hs | ⟨init, top, hs⟩
    · subst hs
      left
      exact ⟨by simp [stepN, toPoint, he'], by simp [gilBody, he']⟩
    · rw [List.concat_eq_append] at hs
      subst hs
      right
      have hpop := stack_Pop_concat init top
      cases init with
      | nil =>
        have hpop' : stack_Pop [top] = some ([], top) := hpop
        refine ⟨([], ⟨top, p.Pos, p.Closed⟩ :: (list.map toIv).reverse),
          list ++ [{ Start := top, End := p.Pos, ClosedEnd := p.Closed }], [], top, ?_, ?_, ⟨rfl, by simp [toIv]⟩⟩
        · simp [stepN, toPoint, he']
        · simp [gilBody, he', hpop', bind, Option.bind, pure]
      | cons a as =>
        have hrev : ((a :: as) ++ [top]).reverse = top :: (a :: as).reverse := by simp
        obtain ⟨r, rest, hr⟩ : ∃ r rest, (a :: as).reverse = r :: rest := by
          cases h : (a :: as).reverse with
          | nil => simp at h
          | cons r rest => exact ⟨r, rest, rfl⟩
        refine ⟨((a :: as).reverse, (list.map toIv).reverse), list, a :: as, top, ?_, ?_, ⟨rfl, rfl⟩⟩
        · rw [hrev, hr]
          simp [stepN, toPoint, he']
        · have hne : ¬ (((a :: as) ++ [top]).length : Int) = 0 := by simp; omega
          have hne2 : ¬ (((a :: as)).length : Int) = 0 := by simp; omega
          simp only [gilBody, he', Bool.not_true, Bool.false_eq_true, if_false, hne, decide_false, hpop, bind, Option.bind,
            pure, hne2]

theorem gil_loop (pts : List interval_IntervalPoint) :
    ∀ (list : List interval_Interval) (stk : List Int) (start i : Int) (st : St), StRel list stk st →
    (sweep (pts.map toPoint) st = none ∧ GoSem.forFold gilBody pts i (list, stk, start) = some (GoSem.Flow.ret none)) ∨
    (∃ st' list' stk' start', sweep (pts.map toPoint) st = some st' ∧
      GoSem.forFold gilBody pts i (list, stk, start) = some (GoSem.Flow.next (list', stk', start')) ∧ StRel list' stk' st') := by
  induction pts with
  | nil =>
    intro list stk start i st h
    exact Or.inr ⟨st, list, stk, start, rfl, rfl, h⟩
  | cons p ps ih =>
    intro list stk start i st h
    have hsw : ∀ st0, sweep ((p :: ps).map toPoint) st0 = (stepN st0 (toPoint p)).bind (fun s => sweep (ps.map toPoint) s) := by
      intro st0; simp [sweep, List.foldlM_cons, bind]
    rcases gil_step p list stk start i st h with ⟨hm, hg⟩ | ⟨st', list', stk', start', hm, hg, hrel⟩
    · left
      exact ⟨by rw [hsw, hm]; rfl, by simp only [GoSem.forFold, hg]⟩
    · have := ih list' stk' start' (i + 1) st' hrel
      rw [hsw, hm]
      simpa only [GoSem.forFold, hg, Option.bind] using this

theorem interval_GetIntervalList_eq (pts : List interval_IntervalPoint) :
    ∃ r, interval_GetIntervalList pts = some r ∧
      r.map (fun l => l.map toIv) = (sweep (pts.map toPoint) ([], [])).map (fun st => st.2.reverse) := by
  have hn1 : ¬ (Int.tdiv (pts.length : Int) 2 < 0) := by
    have : 0 ≤ Int.tdiv (pts.length : Int) 2 := Int.tdiv_nonneg (Int.natCast_nonneg _) (by decide)
    omega
  have hn2 : ¬ ((pts.length : Int) < 0) := by omega
  have hdef : interval_GetIntervalList pts = (do
      let list ← GoSem.mkCap (α := interval_Interval) (Int.tdiv (pts.length : Int) 2)
      let stk ← GoSem.mkCap (α := Int) (pts.length : Int)
      let r ← GoSem.forFold gilBody pts 0 (list, stk, (0 : Int))
      match r with
      | GoSem.Flow.ret v => pure v
      | GoSem.Flow.next (list, _, _) => pure (some list)) := rfl
  rcases gil_loop pts [] [] 0 0 ([], []) ⟨rfl, rfl⟩ with ⟨hm, hg⟩ | ⟨st', list', stk', start', hm, hg, hrel⟩
  · refine ⟨none, ?_, by rw [hm]; rfl⟩
    rw [hdef]
    simp only [GoSem.mkCap, hn1, hn2, if_false, bind, Option.bind, hg, pure]
  · refine ⟨some list', ?_, ?_⟩
    · rw [hdef]
      simp only [GoSem.mkCap, hn1, hn2, if_false, bind, Option.bind, hg, pure]
    · rw [hm]
      simp [hrel.2]

/-! ### sort.Sort by the translated Less = the model's insertion sort -/

theorem insertWith_eq (x : interval_IntervalPoint) (hx : 0 ≤ x.ListId) (qs : List interval_IntervalPoint)
    (hq : ∀ q ∈ qs, 0 ≤ q.ListId) :
    ∃ r, SrcExt.insertWith interval_Less x qs = some r ∧ r.map toPoint = insertPt (toPoint x) (qs.map toPoint) ∧
      ∀ q ∈ r, 0 ≤ q.ListId := by
  induction qs with
  | nil => exact ⟨[x], rfl, rfl, by simpa using hx⟩
  | cons q qs ih =>
    have hq0 : 0 ≤ q.ListId := hq q (by simp)
    obtain ⟨r, hr1, hr2, hr3⟩ := ih (fun a ha => hq a (by simp [ha]))
    have hl := interval_Less_eq [q, x] 0 1 q x rfl rfl hq0 hx
    have hl' : interval_Less [q, x] 0 1 = some (Point.less (toPoint q) (toPoint x)) := hl
    by_cases hc : Point.less (toPoint q) (toPoint x) = true
    · refine ⟨q :: r, ?_, ?_, ?_⟩
      · simp [SrcExt.insertWith, hl', hc, hr1, bind, Option.bind, pure]
      · simp [insertPt, Point.le, hc, hr2]
      · intro a ha
        rcases List.mem_cons.mp ha with h | h
        · subst h; exact hq0
        · exact hr3 a h
    · have hc' : Point.less (toPoint q) (toPoint x) = false := by simpa using hc
      refine ⟨x :: q :: qs, ?_, ?_, ?_⟩
      · simp [SrcExt.insertWith, hl', hc', bind, Option.bind, pure]
      · simp [insertPt, Point.le, hc']
      · intro a ha
        rcases List.mem_cons.mp ha with h | h
        · subst h; exact hx
        · exact hq a h

theorem sortWith_eq (pts : List interval_IntervalPoint) (hq : ∀ q ∈ pts, 0 ≤ q.ListId) :
    ∃ r, SrcExt.sortWith interval_Less pts = some r ∧ r.map toPoint = sortPts (pts.map toPoint) ∧
      ∀ q ∈ r, 0 ≤ q.ListId := by
  induction pts with
  | nil => exact ⟨[], rfl, rfl, by simp⟩
  | cons p ps ih =>
    obtain ⟨r, hr1, hr2, hr3⟩ := ih (fun a ha => hq a (by simp [ha]))
    obtain ⟨r', h1, h2, h3⟩ := insertWith_eq p (hq p (by simp)) r hr3
    refine ⟨r', ?_, ?_, h3⟩
    · simp [SrcExt.sortWith, hr1, h1, bind, Option.bind]
    · simp [sortPts, h2, hr2]

/-! ### Normalize -/

/-- `IntervalList.Normalize`, as translated from today's source, never panics and IS the model's `normalize`
    (`none` = the error return) — the function every C05 theorem is about -/
theorem interval_Normalize_eq (l : List interval_Interval) :
    ∃ r, interval_Normalize l = some r ∧ r.map (fun x => x.map toIv) = normalize (l.map toIv) := by
  obtain ⟨s, hs1, hs2, _⟩ := sortWith_eq (srcPts 0 l) (fun q hq => by rw [srcPts_lid 0 l q hq]; decide)
  obtain ⟨r, hr1, hr2⟩ := interval_GetIntervalList_eq s
  refine ⟨r, ?_, ?_⟩
  · simp [interval_Normalize, interval_GetPointList_eq, hs1, hr1, bind, Option.bind]
  · rw [hr2, hs2, srcPts_model]
    rfl

/-! ### C05 restated about the translated code -/

/-- membership of the half-integer lattice point h/2 in a list of the translated code -/
def srcMem (h : Int) (l : List interval_Interval) : Prop := memL h (l.map toIv)

theorem toIv_inj : ∀ a b : List interval_Interval, a.map toIv = b.map toIv → a = b := by
  intro a
  induction a with
  | nil => intro b h; cases b <;> simp_all
  | cons x xs ih =>
    intro b h
    cases b with
    | nil => simp at h
    | cons y ys =>
      simp only [List.map_cons, List.cons.injEq] at h
      have : x = y := by
        rcases x with ⟨a1, a2, a3⟩; rcases y with ⟨b1, b2, b3⟩
        simp only [toIv, Interval.mk.injEq] at h
        simp [h.1]
      rw [this, ih ys h.2]

/-- C05 for today's source of `IntervalList.Normalize` (modulo the translator and `sort.Sort = sortWith`):
    on well-formed input it returns a list (no error, no panic) denoting the same set, in canonical form; two inputs
    denoting the same set give the same list; normalizing the result again returns it unchanged -/
theorem src_normalize_C05 (l : List interval_Interval) (hwf : ∀ i ∈ l, WFI (toIv i)) :
    ∃ r, interval_Normalize l = some (some r) ∧ (∀ h, srcMem h r ↔ srcMem h l) ∧ Canonical (r.map toIv) ∧
      interval_Normalize r = some (some r) ∧
      (∀ l2 r2, (∀ i ∈ l2, WFI (toIv i)) → interval_Normalize l2 = some (some r2) → (∀ h, srcMem h l ↔ srcMem h l2) → r2 = r) := by
  have hwf' : ∀ i ∈ l.map toIv, WFI i := by
    intro i hi
    obtain ⟨j, hj, rfl⟩ := List.mem_map.mp hi
    exact hwf j hj
  have hle : ∀ i ∈ l.map toIv, i.start ≤ i.stop := by
    intro i hi
    rcases hwf' i hi with h | h <;> omega
  obtain ⟨r0, h0, hm0⟩ := interval_Normalize_eq l
  obtain ⟨rm, hrm⟩ := Props.C05_norm_ok (l.map toIv) hle
  rw [hrm] at hm0
  cases r0 with
  | none => simp at hm0
  | some r =>
    have hr : r.map toIv = rm := by simpa using hm0
    have hcan : Canonical (r.map toIv) := hr ▸ Props.C05_norm_canonical _ hwf' rm hrm
    refine ⟨r, h0, ?_, hcan, ?_, ?_⟩
    · intro h
      unfold srcMem
      rw [hr]
      exact Props.C05_norm_mem _ hle rm hrm h
    · obtain ⟨r1, h1, hm1⟩ := interval_Normalize_eq r
      have hid := Props.C05_norm_idem (l.map toIv) rm hwf' hrm
      rw [hr, hid] at hm1
      cases r1 with
      | none => simp at hm1
      | some r1' =>
        have : r1'.map toIv = r.map toIv := by rw [hr]; simpa using hm1
        rw [h1, toIv_inj _ _ this]
    · intro l2 r2 hwf2 h2 heq
      have hwf2' : ∀ i ∈ l2.map toIv, WFI i := by
        intro i hi
        obtain ⟨j, hj, rfl⟩ := List.mem_map.mp hi
        exact hwf2 j hj
      obtain ⟨r2', h2', hm2⟩ := interval_Normalize_eq l2
      rw [h2] at h2'
      have e2 : r2' = some r2 := (Option.some.inj h2').symm
      subst e2
      have hn2 : normalize (l2.map toIv) = some (r2.map toIv) := by rw [← hm2]; rfl
      have := Props.C05_norm_depends_on_set (l.map toIv) (l2.map toIv) rm (r2.map toIv) hwf' hwf2' hrm hn2 heq
      exact toIv_inj _ _ (by rw [hr, this])

-- the translated code evaluated on a concrete list (the merging behaviour the property describes)
example : interval_Normalize [⟨0, 3, false⟩, ⟨3, 5, true⟩, ⟨7, 7, true⟩, ⟨2, 4, false⟩]
    = some (some [⟨0, 5, true⟩, ⟨7, 7, true⟩]) := by decide
-- an end point with nothing started is the error return, not a panic
example : interval_GetIntervalList [{ Pos := 1, IsEnd := true, Closed := false, ListId := 0 }] = some none := by decide

end Starcal.SrcTie
