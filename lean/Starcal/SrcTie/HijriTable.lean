import Starcal.SrcTie.Utils
import Starcal.SrcTie.Hijri
import Starcal.Drv.Cal
import Starcal.HijriT3
import Starcal.HijriT4
import Starcal.HTable
import Starcal.HijriT
/-! Source tie, cal_types/hijri in month-table mode: `MonthData.GetDateFromJd` (a `for jd > startJd` loop with two `break`s
    over a `map[int]int`) and `MonthData.GetJdFromDate` (a counted loop that panics on a missing key), as translated
    from today's source, are the model's table walk `HTable.walkL` and prefix sums — for an ARBITRARY table of month lengths
    given as the `MonthData` value `mkData y0 m0 d0 startJd lens` (the map holds `lens[k]` under the key `ym0 + k`), and
    in particular for the embedded table `HijriT.lens`. That the running library's `monthData` IS that value (what `Load`
    makes of the embedded JSON) is a regenerated fact: the extractor dumps it through the `verif` accessor into
    Gen/HijriTable.lean on every run and the C01–C03 / C20 obligations compare it with `HijriT`. -/
namespace Starcal.SrcTie
open Starcal Starcal.Gen.Src Starcal.RatCeil

/-- the association list `Load` builds: `lens[k]` under the key `ym0 + k` -/
def tableMap (ym0 : Int) : List Int → List (Int × Int)
  | [] => []
  | L :: rest => (ym0, L) :: tableMap (ym0 + 1) rest

/-- a `MonthData` value for a table that starts at year y0, month m0, day d0 on day number startJd -/
def mkData (y0 m0 d0 startJd : Int) (lens : List Int) : hijri_MonthData :=
  { Version := [], StartDate := [y0, m0, d0], StartJd := startJd, MonthLen := [], ExpJd := 0,
    MonthLenByYm := tableMap (y0 * 12 + m0 - 1) lens, EndJd := startJd + HTable.sum lens }

theorem mapGet2_table (lens : List Int) : ∀ (ym0 q : Int),
    GoSem.mapGet2 (tableMap ym0 lens) q =
      if ym0 ≤ q ∧ q < ym0 + lens.length then (lens.getD (q - ym0).toNat 0, true) else (0, false) := by
  induction lens with
  | nil => intro ym0 q; simp [tableMap, GoSem.mapGet2]
  | cons L rest ih =>
    intro ym0 q
    by_cases hq : q = ym0
    · subst hq
      simp [tableMap, GoSem.mapGet2]
      omega
    · have hne : (ym0 == q) = false := by simp; omega
      have hstep : GoSem.mapGet2 (tableMap ym0 (L :: rest)) q = GoSem.mapGet2 (tableMap (ym0 + 1) rest) q := by
        simp [tableMap, GoSem.mapGet2, List.find?, hne]
      rw [hstep, ih (ym0 + 1) q]
      by_cases hin : ym0 + 1 ≤ q ∧ q < ym0 + 1 + (rest.length : Int)
      · have hin' : ym0 ≤ q ∧ q < ym0 + ((L :: rest).length : Int) := by simp; omega
        have hidx : (q - ym0).toNat = (q - (ym0 + 1)).toNat + 1 := by omega
        simp only [hin, hin', and_self, if_true, hidx, List.getD_cons_succ]
      · have hin' : ¬ (ym0 ≤ q ∧ q < ym0 + ((L :: rest).length : Int)) := by simp; omega
        simp only [hin, hin', if_false]

theorem mapGet_fst (m : List (Int × Int)) (k : Int) : GoSem.mapGet m k = (GoSem.mapGet2 m k).1 := by
  unfold GoSem.mapGet GoSem.mapGet2
  cases m.find? (fun p => p.1 == k) <;> rfl

theorem mapGet_table (lens : List Int) (ym0 q : Int) :
    GoSem.mapGet (tableMap ym0 lens) q =
      if ym0 ≤ q ∧ q < ym0 + lens.length then lens.getD (q - ym0).toNat 0 else 0 := by
  rw [mapGet_fst, mapGet2_table]
  split <;> rfl

/-! ### GetDateFromJd: the loop is the model's walk -/

def gdCond (startJd : Int) : (Int × Int × Int) → Option Bool :=
  fun (jd, _d, _ym) => do pure (decide (jd > startJd))

def gdBody (M : List (Int × Int)) (startJd : Int) : (Int × Int × Int) →
    Option (GoSem.Flow (Int × Int × Int) (Sum (Option GoSem.Date) (Int × Int × Int))) :=
  fun (jd, d, ym) => do
    let monthLen := (GoSem.mapGet M ym)
    let jdm0 := (jd - monthLen)
    if (decide (jdm0 ≤ (startJd - d))) then
      let d := ((d + jd) - startJd)
      pure (GoSem.Flow.ret (Sum.inr (jd, d, ym)))
    else
      if ((decide ((startJd - d) < jdm0)) && (decide (jdm0 ≤ startJd))) then
        let ym := (ym + 1)
        let d := (((d + jd) - startJd) - monthLen)
        pure (GoSem.Flow.ret (Sum.inr (jd, d, ym)))
      else
        let ym := (ym + 1)
        let jd := (jd - monthLen)
        pure (GoSem.Flow.next (jd, d, ym))

theorem walk_loop (M : List (Int × Int)) (startJd d0 : Int) (ls : List Int) :
    ∀ (ym jd : Int) (fuel : Nat) (p : Int × Int), HTable.walkL startJd d0 ls ym jd = some p → ls.length < fuel →
    (∀ k : Nat, k < ls.length → GoSem.mapGet M (ym + k) = ls.getD k 0) →
    ∃ jd', GoSem.whileB (ρ := Option GoSem.Date) fuel (gdCond startJd) (gdBody M startJd) (jd, d0, ym)
      = some (GoSem.Flow.next (jd', p.2, p.1)) := by
  induction ls with
  | nil =>
    intro ym jd fuel p hw hf _
    cases fuel with
    | zero => omega
    | succ n =>
      unfold HTable.walkL at hw
      by_cases hj : jd > startJd
      · simp [hj] at hw
      · simp [hj] at hw
        subst hw
        exact ⟨jd, by simp [GoSem.whileB, gdCond, hj, pure]⟩
  | cons L rest ih =>
    intro ym jd fuel p hw hf hlook
    cases fuel with
    | zero => omega
    | succ n =>
      have hL : GoSem.mapGet M ym = L := by
        have := hlook 0 (by simp)
        simpa using this
      unfold HTable.walkL at hw
      by_cases hj : jd > startJd
      · simp only [hj, if_true] at hw
        by_cases h1 : jd - L ≤ startJd - d0
        · simp only [h1, if_true] at hw
          cases hw
          refine ⟨jd, ?_⟩
          have hb : gdBody M startJd (jd, d0, ym) = some (GoSem.Flow.ret (Sum.inr (jd, d0 + jd - startJd, ym))) := by
            simp [gdBody, hL, h1, pure]
          simp [GoSem.whileB, gdCond, hj, hb, pure]
        · simp only [h1, if_false] at hw
          by_cases h2 : startJd - d0 < jd - L ∧ jd - L ≤ startJd
          · simp only [h2, and_self, if_true] at hw
            cases hw
            refine ⟨jd, ?_⟩
            have hb : gdBody M startJd (jd, d0, ym) = some (GoSem.Flow.ret (Sum.inr (jd, d0 + jd - startJd - L, ym + 1))) := by
              simp [gdBody, hL, h1, h2, pure]
            simp [GoSem.whileB, gdCond, hj, hb, pure]
          · simp only [h2, if_false] at hw
            have hb : gdBody M startJd (jd, d0, ym) = some (GoSem.Flow.next (jd - L, d0, ym + 1)) := by
              have h2' : (decide (startJd - d0 < jd - L) && decide (jd - L ≤ startJd)) = false := by
                cases hd : (decide (startJd - d0 < jd - L) && decide (jd - L ≤ startJd)) with
                | false => rfl
                | true => simp at hd; exact absurd hd h2
              simp [gdBody, hL, h1, h2', pure]
            obtain ⟨jd', hj'⟩ := ih (ym + 1) (jd - L) n p hw (by simp at hf; omega) (by
              intro k hk
              have := hlook (k + 1) (by simp; omega)
              have e : ym + ((k + 1 : Nat) : Int) = ym + 1 + (k : Int) := by omega
              rw [e] at this
              simpa using this)
            exact ⟨jd', by simp [GoSem.whileB, gdCond, hj, hb, pure, hj']⟩
      · simp only [hj, if_false] at hw
        cases hw
        exact ⟨jd, by simp [GoSem.whileB, gdCond, hj, pure]⟩

/-- `MonthData.GetDateFromJd` on the table value: outside the window `nil`; inside it, wherever the model's walk ends
    (it always does for a table of positive lengths: `HTable.walk_pos`), the date the walk gives (month and day through
    the `uint8` conversions of the code) — no panic, no fuel exhaustion (the table has fewer than 1024 months) -/
theorem hijri_GetDateFromJd_eq (y0 m0 d0 startJd : Int) (lens : List Int) (hlen : lens.length < 1024) (jd : Int) :
    (¬ (startJd + HTable.sum lens ≥ jd ∧ jd ≥ startJd) →
      hijri_MonthData_GetDateFromJd (mkData y0 m0 d0 startJd lens) jd = some none) ∧
    (startJd + HTable.sum lens ≥ jd ∧ jd ≥ startJd →
      ∀ p, HTable.walkL startJd d0 lens (y0 * 12 + m0 - 1) jd = some p →
      hijri_MonthData_GetDateFromJd (mkData y0 m0 d0 startJd lens) jd
        = some (some ⟨p.1 / 12, GoSem.u8 (p.1 % 12 + 1), GoSem.u8 p.2⟩)) := by
  have hdef : hijri_MonthData_GetDateFromJd (mkData y0 m0 d0 startJd lens) jd = (do
      if (!((decide ((mkData y0 m0 d0 startJd lens).EndJd ≥ jd)) && (decide (jd ≥ (mkData y0 m0 d0 startJd lens).StartJd)))) then
        pure none
      else
        let y ← (GoSem.idx (mkData y0 m0 d0 startJd lens).StartDate 0)
        let m ← (GoSem.idx (mkData y0 m0 d0 startJd lens).StartDate 1)
        let d ← (GoSem.idx (mkData y0 m0 d0 startJd lens).StartDate 2)
        let ym := (((y * 12) + m) - 1)
        let sj := (mkData y0 m0 d0 startJd lens).StartJd
        let r1 ← GoSem.whileB (ρ := (Option GoSem.Date)) GoSem.fuel (gdCond sj)
          (gdBody (mkData y0 m0 d0 startJd lens).MonthLenByYm sj) (jd, d, ym)
        match r1 with
        | GoSem.Flow.ret v => pure v
        | GoSem.Flow.next (_jd, d, ym) =>
          let (year, mm) ← (utils_Divmod ym 12)
          pure (some (← (SrcExt.lib_NewDate year (GoSem.u8 (mm + 1)) (GoSem.u8 d))))) := rfl
  constructor
  · intro hout
    rw [hdef]
    have : (decide (startJd + HTable.sum lens ≥ jd) && decide (jd ≥ startJd)) = false := by
      cases hd : (decide (startJd + HTable.sum lens ≥ jd) && decide (jd ≥ startJd)) with
      | false => rfl
      | true => simp at hd; exact absurd hd hout
    simp [mkData, this, pure]
  · intro hin p hw
    have hlook : ∀ k : Nat, k < lens.length →
        GoSem.mapGet (tableMap (y0 * 12 + m0 - 1) lens) (y0 * 12 + m0 - 1 + k) = lens.getD k 0 := by
      intro k hk
      rw [mapGet_table]
      have h1 : y0 * 12 + m0 - 1 ≤ y0 * 12 + m0 - 1 + (k : Int) ∧ y0 * 12 + m0 - 1 + (k : Int) < y0 * 12 + m0 - 1 + (lens.length : Int) := by omega
      have h2 : (y0 * 12 + m0 - 1 + (k : Int) - (y0 * 12 + m0 - 1)).toNat = k := by omega
      simp only [h1, and_self, if_true, h2]
    obtain ⟨jd', hloop⟩ := walk_loop (tableMap (y0 * 12 + m0 - 1) lens) startJd d0 lens (y0 * 12 + m0 - 1) jd GoSem.fuel p hw
      (by unfold GoSem.fuel; omega) hlook
    have hcond : (decide (startJd + HTable.sum lens ≥ jd) && decide (jd ≥ startJd)) = true := by simp [hin.1, hin.2]
    rw [hdef]
    simp only [mkData, hcond, Bool.not_true, Bool.false_eq_true, if_false, GoSem.idx, bind, Option.bind, pure]
    simp only [Int.le_refl, if_true, Int.toNat_zero, List.getElem?_cons_zero]
    have e1 : ((0 : Int) ≤ 1) = True := by simp
    have e2 : ((0 : Int) ≤ 2) = True := by simp
    simp only [e1, e2, if_true]
    have t1 : (1 : Int).toNat = 1 := rfl
    have t2 : (2 : Int).toNat = 2 := rfl
    simp only [t1, t2, List.getElem?_cons_succ, List.getElem?_cons_zero, hloop,
      utils_Divmod_pos _ 12 (by decide), SrcExt.lib_NewDate]
    simp [hin.1, hin.2]

/-! ### GetJdFromDate: the counted loop is a prefix sum -/

def gjBody (M : List (Int × Int)) : Int → Int → Option (GoSem.Flow Int Empty) :=
  fun jd ymi => do
    let (plus, ok_1) := GoSem.mapGet2 M ymi
    if (!ok_1) then
      none
    else
      let jd := (jd + plus)
      pure (GoSem.Flow.next jd)

/-- sum of `n` consecutive table entries from index `k` -/
def sumFrom (lens : List Int) (k : Nat) : Nat → Int
  | 0 => 0
  | n + 1 => lens.getD k 0 + sumFrom lens (k + 1) n

theorem gj_loop (lens : List Int) (ym0 : Int) : ∀ (n k : Nat) (acc : Int), k + n ≤ lens.length →
    GoSem.forCountAux (gjBody (tableMap ym0 lens)) n (ym0 + k) acc = some (GoSem.Flow.next (acc + sumFrom lens k n)) := by
  intro n
  induction n with
  | zero => intro k acc _; simp [GoSem.forCountAux, sumFrom]
  | succ n ih =>
    intro k acc hk
    have hin : ym0 ≤ ym0 + (k : Int) ∧ ym0 + (k : Int) < ym0 + (lens.length : Int) := by omega
    have hidx : (ym0 + (k : Int) - ym0).toNat = k := by omega
    have hb : gjBody (tableMap ym0 lens) acc (ym0 + k) = some (GoSem.Flow.next (acc + lens.getD k 0)) := by
      simp only [gjBody, mapGet2_table, hin, and_self, if_true, hidx, Bool.not_true, Bool.false_eq_true, if_false, pure]
    have hnext : ym0 + (k : Int) + 1 = ym0 + ((k + 1 : Nat) : Int) := by omega
    simp only [GoSem.forCountAux, hb, hnext, sumFrom]
    rw [ih (k + 1) _ (by omega)]
    congr 2
    omega

theorem sumFrom_prefix (lens : List Int) : ∀ n : Nat, n ≤ lens.length → sumFrom lens 0 n = HTable.prefixSum lens n := by
  have gen : ∀ (ls : List Int) (n : Nat), n ≤ ls.length → sumFrom ls 0 n = HTable.sum (ls.take n) := by
    intro ls
    induction ls with
    | nil => intro n hn; simp at hn; subst hn; rfl
    | cons L rest ih =>
      intro n hn
      cases n with
      | zero => rfl
      | succ n =>
        have shift : ∀ (m k : Nat), sumFrom (L :: rest) (k + 1) m = sumFrom rest k m := by
          intro m
          induction m with
          | zero => intro k; rfl
          | succ m ihm => intro k; simp [sumFrom, ihm]
        simp only [sumFrom, List.getD_cons_zero, List.take_succ_cons, HTable.sum]
        rw [shift n 0, ih n (by simp at hn; omega)]
  intro n hn
  exact gen lens n hn

/-- `MonthData.GetJdFromDate` on the table value is the model's prefix-sum formula, with the same condition for
    "not in the table" (the month before the date's month must be a key); it never panics -/
theorem hijri_GetJdFromDate_eq (y0 m0 d0 startJd : Int) (lens : List Int) (y m d : Int) :
    hijri_MonthData_GetJdFromDate (mkData y0 m0 d0 startJd lens) ⟨y, m, d⟩ =
      some (if y0 * 12 + m0 - 1 ≤ y * 12 + m - 1 - 1 ∧ y * 12 + m - 1 - 1 < y0 * 12 + m0 - 1 + lens.length
        then (startJd + HTable.prefixSum lens (y * 12 + m - 1 - (y0 * 12 + m0 - 1)).toNat + d - 1, true)
        else (0, false)) := by
  have hdef : hijri_MonthData_GetJdFromDate (mkData y0 m0 d0 startJd lens) ⟨y, m, d⟩ = (do
      let ym := (((y * 12) + m) - 1)
      let (_u1, ok) := GoSem.mapGet2 (mkData y0 m0 d0 startJd lens).MonthLenByYm (ym - 1)
      if (!ok) then
        pure (0, false)
      else
        let ym0 := ((((← (GoSem.idx (mkData y0 m0 d0 startJd lens).StartDate 0)) * 12) + (← (GoSem.idx (mkData y0 m0 d0 startJd lens).StartDate 1))) - 1)
        let jd := (mkData y0 m0 d0 startJd lens).StartJd
        let r2 ← GoSem.forCount (ρ := Empty) (gjBody (mkData y0 m0 d0 startJd lens).MonthLenByYm) ym0 ym jd
        match r2 with
        | GoSem.Flow.ret v => nomatch v
        | GoSem.Flow.next jd => pure (((jd + d) - 1), true)) := rfl
  rw [hdef]
  simp only [mkData, mapGet2_table]
  by_cases hin : y0 * 12 + m0 - 1 ≤ y * 12 + m - 1 - 1 ∧ y * 12 + m - 1 - 1 < y0 * 12 + m0 - 1 + (lens.length : Int)
  · have hn : (y * 12 + m - 1 - (y0 * 12 + m0 - 1)).toNat ≤ lens.length := by omega
    have hcount := gj_loop lens (y0 * 12 + m0 - 1) (y * 12 + m - 1 - (y0 * 12 + m0 - 1)).toNat 0 startJd (by omega)
    have hz : y0 * 12 + m0 - 1 + ((0 : Nat) : Int) = y0 * 12 + m0 - 1 := by omega
    rw [hz, sumFrom_prefix lens _ hn] at hcount
    have e1 : ((0 : Int) ≤ 1) = True := by simp
    have t1 : (1 : Int).toNat = 1 := rfl
    simp only [hin, and_self, if_true, Bool.not_true, Bool.false_eq_true, if_false, GoSem.idx, Int.le_refl, Int.toNat_zero,
      List.getElem?_cons_zero, e1, t1, List.getElem?_cons_succ, bind, Option.bind, pure, GoSem.forCount, hcount]
  · simp only [hin, if_false, Bool.not_false, if_true, pure]

/-! ### the embedded table -/

/-- the `MonthData` value of the embedded table (start 1426/02/01 = day 2453442) -/
def hijriTable : hijri_MonthData := mkData 1426 2 1 HijriT.startJd HijriT.lens

/-- today's `GetJdFromDate` on the embedded table is the model's `tableToJd` -/
theorem src_tableToJd (y m d : Int) :
    hijri_MonthData_GetJdFromDate hijriTable ⟨y, m, d⟩ =
      some (match HijriT.tableToJd ⟨y, m, d⟩ with | some j => (j, true) | none => (0, false)) := by
  unfold hijriTable
  rw [hijri_GetJdFromDate_eq]
  simp only [HijriT.tableToJd, HijriT.hasYm, HijriT.ym0]
  by_cases h : (17113 : Int) ≤ y * 12 + m - 1 - 1 ∧ y * 12 + m - 1 - 1 < 17113 + (HijriT.lens.length : Int)
  · simp [h]
  · simp [h]

/-- today's `GetDateFromJd` on the embedded table is the model's `tableJdTo` (month and day through the `uint8`
    conversions of the code, which are the identity on what the walk produces: `HijriT` proves the dates well-formed) -/
theorem src_tableJdTo (jd : Int) (hlen : HijriT.lens.length < 1024) :
    (HijriT.tableJdTo jd = none → hijri_MonthData_GetDateFromJd hijriTable jd = some none ∨
      (HijriT.endJd ≥ jd ∧ jd ≥ HijriT.startJd)) ∧
    (∀ dt, HijriT.tableJdTo jd = some dt →
      hijri_MonthData_GetDateFromJd hijriTable jd = some (some ⟨dt.year, GoSem.u8 dt.month, GoSem.u8 dt.day⟩)) := by
  have hg := hijri_GetDateFromJd_eq 1426 2 1 HijriT.startJd HijriT.lens hlen jd
  constructor
  · intro _
    by_cases hin : HijriT.endJd ≥ jd ∧ jd ≥ HijriT.startJd
    · exact Or.inr hin
    · exact Or.inl (hg.1 hin)
  · intro dt hdt
    unfold HijriT.tableJdTo at hdt
    by_cases hin : HijriT.endJd ≥ jd ∧ jd ≥ HijriT.startJd
    · simp only [hin, and_self, if_true] at hdt
      cases hw : HTable.walkL HijriT.startJd 1 HijriT.lens HijriT.ym0 jd with
      | none => rw [hw] at hdt; simp at hdt
      | some p =>
        rw [hw] at hdt
        simp at hdt
        subst hdt
        exact hg.2 hin p hw
    · simp [hin] at hdt

example : HijriT.lens.length < 1024 := by decide +kernel

-- the translated code evaluated on the embedded table: the anchor named in C03 (1436/01/01 = day 2456957), the first
-- table day, and a day before the table
example : hijri_MonthData_GetDateFromJd hijriTable 2456957 = some (some ⟨1436, 1, 1⟩) := by decide +kernel
example : hijri_MonthData_GetDateFromJd hijriTable 2453442 = some (some ⟨1426, 2, 1⟩) := by decide +kernel
example : hijri_MonthData_GetDateFromJd hijriTable 2453441 = some none := by decide +kernel
example : hijri_MonthData_GetJdFromDate hijriTable ⟨1436, 1, 1⟩ = some (2456957, true) := by decide +kernel
-- the start seam of the known finding, on the translated code: the table's first month is refused
example : hijri_MonthData_GetJdFromDate hijriTable ⟨1426, 2, 1⟩ = some (0, false) := by decide +kernel

/-! ### the wrappers with the month table on: `ToJd` and `GetMonthLen` (a second translation of the package with
    `useMonthData` fixed to true; the package-level pointer `monthData` is a parameter) -/

theorem hijriT_ToJd_eq (y m d : Int) (h1 : 1 ≤ m) (h2 : m ≤ 256) :
    hijriT_ToJd hijriTable ⟨y, m, d⟩ = some (HijriT.toJdT ⟨y, m, d⟩) := by
  have hdef : hijriT_ToJd hijriTable ⟨y, m, d⟩ = (do
      let (jd, ok) ← hijri_MonthData_GetJdFromDate hijriTable ⟨y, m, d⟩
      if ok then pure jd else hijri_ToJd ⟨y, m, d⟩) := rfl
  rw [hdef, src_tableToJd, hijri_ToJd_eq y m d h1 h2]
  unfold HijriT.toJdT
  cases HijriT.tableToJd ⟨y, m, d⟩ <;> simp [bind, Option.bind, pure]

/-- `GetMonthLen` in table mode is the gap between the table-aware `ToJd` of consecutive month starts, through the
    code's `uint8` conversion — the model's `monthLenT` -/
theorem hijriT_GetMonthLen_eq (y m : Int) (h1 : 1 ≤ m) (h2 : m ≤ 12) :
    hijriT_GetMonthLen hijriTable y m = some (GoSem.u8 (HijriT.monthLenT y m)) := by
  have hu : GoSem.u8 (m + 1) = m + 1 := GoSem.u8_id (by omega) (by omega)
  by_cases h12 : m = 12
  · subst h12
    simp only [hijriT_GetMonthLen, SrcExt.lib_NewDate, bind, Option.bind, pure, decide_true, if_true,
      hijriT_ToJd_eq (y + 1) 1 1 (by decide) (by decide), hijriT_ToJd_eq y 12 1 (by decide) (by decide), HijriT.monthLenT]
  · have hd : decide (m = 12) = false := by simp [h12]
    simp only [hijriT_GetMonthLen, SrcExt.lib_NewDate, bind, Option.bind, pure, hd, Bool.false_eq_true, if_false, hu,
      hijriT_ToJd_eq y (m + 1) 1 (by omega) (by omega), hijriT_ToJd_eq y m 1 h1 (by omega), HijriT.monthLenT, h12,
      decide_false, Bool.false_eq_true, if_false]

example : hijriT_GetMonthLen hijriTable 1436 1 = some 29 := by decide +kernel
example : hijriT_ToJd hijriTable ⟨1436, 1, 1⟩ = some 2456957 := by decide +kernel

/-! ### `JdTo` with the month table on -/

/-- the month count of the fallback, as the model computes it -/
def mcOf (jd : Int) : Int :=
  (2 * (jd - HijriT.toJdT ⟨(30 * (jd - 1 - 1948440) + 10646) / 10631, 1, 1⟩) + 1 + 58) / 59

/-- outside the table window the fallback's month count is at least 1: far from the table by the year bracket of the
    arithmetic calendar, in the two strips next to it (years 1426 and 1443, outside the window) by evaluation -/
theorem strip_low : (HijriT.rangeI 2453413 29).all (fun jd => decide (1 ≤ mcOf jd)) = true := by decide +kernel
theorem strip_high : (HijriT.rangeI 2459674 118).all (fun jd => decide (1 ≤ mcOf jd)) = true := by decide +kernel

theorem mc_pos (jd : Int) (hout : ¬ (HijriT.endJd ≥ jd ∧ jd ≥ HijriT.startJd)) : 1 ≤ mcOf jd := by
  rw [HijriT.endJd_val] at hout
  unfold HijriT.startJd at hout
  by_cases h1 : jd < 2453413
  · have hy := HijriT.year_far_low jd h1
    have hb := Hijri.year_bracket jd
    simp only at hb
    unfold mcOf
    rw [show Hijri.Epoch = (1948440 : Int) from rfl] at hy hb
    generalize hyv : (30 * (jd - 1 - 1948440) + 10646) / 10631 = y at *
    have e1 : HijriT.toJdT ⟨y, 1, 1⟩ = Hijri.toJd ⟨y, 1, 1⟩ := HijriT.toJdT_far _ (by simp) (Or.inl hy)
    rw [e1, Hijri.yearStart_eq]
    omega
  · by_cases h2 : 2459792 ≤ jd
    · have hy := HijriT.year_far_high jd h2
      have hb := Hijri.year_bracket jd
      simp only at hb
      unfold mcOf
      rw [show Hijri.Epoch = (1948440 : Int) from rfl] at hy hb
      generalize hyv : (30 * (jd - 1 - 1948440) + 10646) / 10631 = y at *
      have e1 : HijriT.toJdT ⟨y, 1, 1⟩ = Hijri.toJd ⟨y, 1, 1⟩ := HijriT.toJdT_far _ (by simp) (Or.inr hy)
      rw [e1, Hijri.yearStart_eq]
      omega
    · by_cases h3 : jd < 2453442
      · have hm := HijriT.mem_rangeI 2453413 29 jd (by omega) (by omega)
        have := List.all_eq_true.mp strip_low jd hm
        simpa using this
      · have hm := HijriT.mem_rangeI 2459674 118 jd (by omega) (by omega)
        have := List.all_eq_true.mp strip_high jd hm
        simpa using this

theorem hijriT_JdTo_eq (jd : Int) :
    hijriT_JdTo hijriTable jd =
      some ⟨(HijriT.jdToT jd).year, GoSem.u8 (HijriT.jdToT jd).month, GoSem.u8 (HijriT.jdToT jd).day⟩ := by
  have hdef : hijriT_JdTo hijriTable jd = (do
      let date ← hijri_MonthData_GetDateFromJd hijriTable jd
      if (date).isSome then date
      else
        let year ← (utils_Div ((30 * ((jd - 1) - 1948440)) + 10646) 10631)
        let month := (GoSem.u8 (← (utils_IntMin 12 (GoSem.ftoi ((Rat.ceil (((((jd : Int) : Rat) + ((1 : Rat) / 2)) - (((← (hijriT_ToJd hijriTable (← (SrcExt.lib_NewDate year 1 1)))) : Int) : Rat)) / ((59 : Rat) / 2)) : Int) : Rat)))))
        let day := (GoSem.u8 ((jd - (← (hijriT_ToJd hijriTable (← (SrcExt.lib_NewDate year month 1))))) + 1))
        (SrcExt.lib_NewDate year month day)) := rfl
  have hlen : HijriT.lens.length < 1024 := by rw [HijriT.lens_length]; decide
  have hg := hijri_GetDateFromJd_eq 1426 2 1 HijriT.startJd HijriT.lens hlen jd
  by_cases hin : HijriT.endJd ≥ jd ∧ jd ≥ HijriT.startJd
  · -- inside the window: the table walk
    have hrem0 : 0 ≤ jd - HijriT.startJd := by omega
    have hrem1 : jd - HijriT.startJd ≤ HTable.sum HijriT.lens := by have := hin.1; unfold HijriT.endJd at this; omega
    have hwalk := HTable.walk_pos HijriT.startJd HijriT.lens HijriT.lens_pos HijriT.ym0 (jd - HijriT.startJd) hrem0 hrem1
    have e : HijriT.startJd + (jd - HijriT.startJd) = jd := by omega
    rw [e] at hwalk
    have hval := hg.2 hin _ hwalk
    have hj : HijriT.jdToT jd = ⟨(HijriT.ym0 + (HTable.pos HijriT.lens (jd - HijriT.startJd)).1) / 12,
        (HijriT.ym0 + (HTable.pos HijriT.lens (jd - HijriT.startJd)).1) % 12 + 1,
        (HTable.pos HijriT.lens (jd - HijriT.startJd)).2⟩ := HijriT.jdToT_window jd hin.2 hin.1
    rw [hdef]
    unfold hijriTable
    rw [hval, hj]
    simp only [bind, Option.bind, Option.isSome_some, if_true]
  · -- outside: the arithmetic fallback over the table-aware ToJd
    have hnone := hg.1 hin
    have hmc := mc_pos jd hin
    have htn : HijriT.tableJdTo jd = none := by unfold HijriT.tableJdTo; rw [if_neg hin]
    rw [hdef]
    unfold hijriTable at hnone ⊢
    rw [hnone]
    have hj : HijriT.jdToT jd =
        (let year := (30 * (jd - 1 - 1948440) + 10646) / 10631
         let ys := HijriT.toJdT ⟨year, 1, 1⟩
         let mc := (2 * (jd - ys) + 1 + 58) / 59
         let month := if 12 < mc then 12 else mc
         let day := jd - HijriT.toJdT ⟨year, month, 1⟩ + 1
         (⟨year, month, day⟩ : Hijri.Date)) := by
      unfold HijriT.jdToT
      rw [htn]
      rfl
    rw [hj]
    simp only []
    unfold mcOf at hmc
    simp only [bind, Option.bind, Option.isSome_none, Bool.false_eq_true, if_false, utils_Div_pos _ 10631 (by decide),
      SrcExt.lib_NewDate, pure]
    have ht1 := fun y => hijriT_ToJd_eq y 1 1 (by decide) (by decide)
    unfold hijriTable at ht1
    simp only [ht1, ceil_month, ftoi_intCast, utils_IntMin_eq, intMin]
    generalize hyv : (30 * (jd - 1 - 1948440) + 10646) / 10631 = year at *
    generalize hmv : (2 * (jd - HijriT.toJdT ⟨year, 1, 1⟩) + 1 + 58) / 59 = mc at *
    have hm : 1 ≤ (if 12 < mc then 12 else mc) ∧ (if 12 < mc then 12 else mc) ≤ 12 := by split <;> omega
    generalize (if 12 < mc then 12 else mc) = mo at *
    rw [GoSem.u8_id (x := mo) (by omega) (by omega)]
    have ht2 := hijriT_ToJd_eq year mo 1 hm.1 (by omega)
    unfold hijriTable at ht2
    simp only [ht2]

example : hijriT_JdTo hijriTable 2456957 = some ⟨1436, 1, 1⟩ := by decide +kernel

/-- hijri with the month table on, as translated from today's source (`monthData` = the embedded table), IS the model
    of the configuration `calHijT` (`Drv/Cal.lean`: `jdTo := HijriT.jdToT`, `toJd := HijriT.toJdT`,
    `monthLen := HijriT.monthLenT`) up to the `uint8` conversions of the month, day and month-length results that the
    code itself applies (the driver applies the same `n8` when it prints): every day number, every year, months 1..12,
    `uint8` days. No well-formedness is needed: the statement holds at the two seams of the known findings too. -/
theorem hijriT_translates :
    (∀ jd : Int, hijriT_JdTo hijriTable jd =
      some ⟨(HijriT.jdToT jd).year, GoSem.u8 (HijriT.jdToT jd).month, GoSem.u8 (HijriT.jdToT jd).day⟩) ∧
    (∀ y m d : Int, 1 ≤ m → m ≤ 12 → hijriT_ToJd hijriTable ⟨y, m, d⟩ = some (HijriT.toJdT ⟨y, m, d⟩)) ∧
    (∀ y m : Int, 1 ≤ m → m ≤ 12 → hijriT_GetMonthLen hijriTable y m = some (GoSem.u8 (HijriT.monthLenT y m))) :=
  ⟨fun jd => hijriT_JdTo_eq jd, fun y m d h1 h2 => hijriT_ToJd_eq y m d h1 (by omega),
   fun y m h1 h2 => hijriT_GetMonthLen_eq y m h1 h2⟩

/-! ### C01 (partial, as for the model) restated about the translated table-mode code -/

def nearYears : List Int := HijriT.rangeI 1425 20
def months12 : List Int := HijriT.rangeI 1 12

theorem monthLenT_near : nearYears.all (fun y => months12.all (fun m => decide (HijriT.monthLenT y m < 256))) = true := by
  decide +kernel

theorem monthLenT_lt (y m : Int) (h1 : 1 ≤ m) (h2 : m ≤ 12) : HijriT.monthLenT y m < 256 := by
  by_cases hy : y < 1426 ∨ 1444 ≤ y
  · rw [HijriT.monthLenT_far y m ⟨h1, h2⟩ hy]
    have := Hijri.monthLen_range y m
    omega
  · have hy' : y ∈ nearYears := HijriT.mem_rangeI 1425 20 y (by omega) (by omega)
    have hm' : m ∈ months12 := HijriT.mem_rangeI 1 12 m (by omega) (by omega)
    have := List.all_eq_true.mp (List.all_eq_true.mp monthLenT_near y hy') m hm'
    simpa using this

/-- every day number outside the start seam of the known finding (2453442 … 2453470) and other than the three
    end-seam days on which the code produces day 0 converts, BY TODAY'S SOURCE with the month table on, to a date that
    today's source converts back to it — no panic on the way -/
theorem src_hijri_table_roundtrip_partial (jd : Int) (hseam : jd < 2453442 ∨ 2453470 < jd)
    (hne : jd ≠ 2459703 ∧ jd ≠ 2459732 ∧ jd ≠ 2459762) :
    ∃ d, hijriT_JdTo hijriTable jd = some d ∧ hijriT_ToJd hijriTable d = some jd := by
  have hwf := HijriT.hijri_table_wf_partial jd ⟨by omega, hne.1, hne.2.1, hne.2.2⟩
  have hrt := HijriT.hijri_table_jd_roundtrip_partial jd hseam
  have key := hijriT_JdTo_eq jd
  have hml := fun h1 h2 => monthLenT_lt (HijriT.jdToT jd).year (HijriT.jdToT jd).month h1 h2
  revert hwf hrt key hml
  generalize HijriT.jdToT jd = dt
  obtain ⟨y, m, d⟩ := dt
  intro hwf hrt key hml
  unfold HijriT.wfT at hwf
  simp only [Bool.and_eq_true, decide_eq_true_eq] at hwf
  obtain ⟨⟨⟨m1, m2⟩, d1⟩, d2⟩ := hwf
  have hl := hml m1 m2
  simp only at key hl d2
  rw [GoSem.u8_id (x := m) (by omega) (by omega), GoSem.u8_id (x := d) (by omega) (by omega)] at key
  refine ⟨_, key, ?_⟩
  rw [hijriT_ToJd_eq y m d m1 (by omega), hrt]

/-- C02 (partial, as for the model) about the translated table-mode code: except after the five day numbers of the
    two seams and at the four ill-formed days, the date of day jd + 1 is the successor of the date of day jd under
    today's `GetMonthLen` with the month table on -/
theorem src_hijri_table_succ_partial (jd : Int)
    (hne : jd ≠ 2453441 ∧ jd ≠ 2453469 ∧ jd ≠ 2459702 ∧ jd ≠ 2459731 ∧ jd ≠ 2459761)
    (hwf0 : jd ≠ 2453470 ∧ jd ≠ 2459703 ∧ jd ≠ 2459732 ∧ jd ≠ 2459762)
    (hwf1 : jd + 1 ≠ 2453470 ∧ jd + 1 ≠ 2459703 ∧ jd + 1 ≠ 2459732 ∧ jd + 1 ≠ 2459762) :
    ∃ y m d L, hijriT_JdTo hijriTable jd = some ⟨y, m, d⟩ ∧ hijriT_GetMonthLen hijriTable y m = some L ∧
      hijriT_JdTo hijriTable (jd + 1) =
        some (if d < L then ⟨y, m, d + 1⟩ else if m < 12 then ⟨y, m + 1, 1⟩ else ⟨y + 1, 1, 1⟩) := by
  have hs := HijriT.hijri_table_succ_partial jd hne
  have w0 := HijriT.hijri_table_wf_partial jd hwf0
  have w1 := HijriT.hijri_table_wf_partial (jd + 1) hwf1
  have k0 := hijriT_JdTo_eq jd
  have k1 := hijriT_JdTo_eq (jd + 1)
  have hml := fun h1 h2 => monthLenT_lt (HijriT.jdToT jd).year (HijriT.jdToT jd).month h1 h2
  have hml1 := fun h1 h2 => monthLenT_lt (HijriT.jdToT (jd + 1)).year (HijriT.jdToT (jd + 1)).month h1 h2
  revert hs w0 w1 k0 k1 hml hml1
  generalize HijriT.jdToT jd = a
  generalize HijriT.jdToT (jd + 1) = b
  obtain ⟨y, m, d⟩ := a
  obtain ⟨y1, m1, d1⟩ := b
  intro hs w0 w1 k0 k1 hml hml1
  unfold HijriT.wfT at w0 w1
  simp only [Bool.and_eq_true, decide_eq_true_eq] at w0 w1
  obtain ⟨⟨⟨a1, a2⟩, a3⟩, a4⟩ := w0
  obtain ⟨⟨⟨b1, b2⟩, b3⟩, b4⟩ := w1
  have hl := hml a1 a2
  have hl1 := hml1 b1 b2
  simp only at k0 k1 hl hl1 a4 b4
  rw [GoSem.u8_id (x := m) (by omega) (by omega), GoSem.u8_id (x := d) (by omega) (by omega)] at k0
  rw [GoSem.u8_id (x := m1) (by omega) (by omega), GoSem.u8_id (x := d1) (by omega) (by omega)] at k1
  have hg := hijriT_GetMonthLen_eq y m a1 a2
  have hml0 : 0 ≤ HijriT.monthLenT y m := by omega
  rw [GoSem.u8_id (x := HijriT.monthLenT y m) hml0 hl] at hg
  unfold HijriT.succT at hs
  simp only at hs
  refine ⟨y, m, d, HijriT.monthLenT y m, k0, hg, ?_⟩
  rw [k1]
  generalize HijriT.monthLenT y m = L at *
  by_cases c1 : d < L
  · rw [if_pos c1] at hs ⊢
    have e1 := congrArg (fun x => x.year) hs
    have e2 := congrArg (fun x => x.month) hs
    have e3 := congrArg (fun x => x.day) hs
    simp only at e1 e2 e3
    rw [e1, e2, e3]
  · rw [if_neg c1] at hs ⊢
    by_cases c2 : m < 12
    · rw [if_pos c2] at hs ⊢
      have e1 := congrArg (fun x => x.year) hs
      have e2 := congrArg (fun x => x.month) hs
      have e3 := congrArg (fun x => x.day) hs
      simp only at e1 e2 e3
      rw [e1, e2, e3]
    · rw [if_neg c2] at hs ⊢
      have e1 := congrArg (fun x => x.year) hs
      have e2 := congrArg (fun x => x.month) hs
      have e3 := congrArg (fun x => x.day) hs
      simp only at e1 e2 e3
      rw [e1, e2, e3]

end Starcal.SrcTie
