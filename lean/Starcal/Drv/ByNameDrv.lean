import Starcal.ByName
/-! Driver side of the by-name stream (C06) and of the metadata dump (C20). -/
namespace Starcal.Drv
open Starcal.ByName

def parseHist (s : String) : Option (List Toggle) :=
  if s == "-" then some [] else
  (s.splitOn ",").mapM (fun t => match t with
    | "M0" => some Toggle.M0 | "M1" => some Toggle.M1 | "A0" => some Toggle.A0 | "A1" => some Toggle.A1 | _ => none)

def showT (t : Int × Int × Int) : String := s!"{t.1}/{n8 t.2.1}/{n8 t.2.2}"

def showRes : Res (Int × Int × Int) → String
  | .ok t => showT t
  | .err => "err"
  | .panic => "panic"

/-- Go's `lib.NewDate(y, uint8 m, uint8 d)` on the way back into the API -/
def narrowT (t : Int × Int × Int) : Int × Int × Int := (t.1, n8 t.2.1, n8 t.2.2)

/-- `byname conv <hist> <A> <B> <C> <jd>`: the date of day `jd` in A (by name), then
    A→A, A→B, B→A of that, A→C, B→C of A→B -/
def byNameRequest (toks : List String) : String :=
  match toks with
  | ["conv", h, a, b, c, j] =>
    match parseHist h, j.toInt? with
    | some hist, some jd =>
      let cfg := run hist
      match jdToByName cfg jd a with
      | .ok d0 =>
        let d := narrowT d0
        let ab := convert cfg d a b
        let back := match ab with | .ok x => convert cfg (narrowT x) b a | r => r
        let bc := match ab with | .ok x => convert cfg (narrowT x) b c | r => r
        let viaJd := match toJdByName cfg d a with | .ok v => toString v | .err => "err" | .panic => "panic"
        s!"{showT d} {viaJd} {showRes (convert cfg d a a)} {showRes ab} {showRes back} {showRes (convert cfg d a c)} {showRes bc}"
      | .err => "err"
      | .panic => "panic"
    | _, _ => "bad-request"
  | ["convraw", h, a, b, y, m, d] =>
    match parseHist h, y.toInt?, m.toInt?, d.toInt? with
    | some hist, some yy, some mm, some dd =>
      let cfg := run hist
      let tj := match toJdByName cfg (yy, mm, dd) a with | .ok v => toString v | .err => "err" | .panic => "panic"
      let ab := convert cfg (yy, mm, dd) a b
      let back := match ab with | .ok x => convert cfg (narrowT x) b a | r => r
      s!"{showRes ab} {tj} {showRes back}"
    | _, _, _, _ => "bad-request"
  | ["names"] => ",".intercalate (Gen.calMetas.map (fun m => m.name))
  | ["meta"] =>
    ";".intercalate (Gen.calMetas.map (fun m =>
      s!"{m.name}|{m.desc}|{m.epoch}|{m.minMonthLen}|{m.maxMonthLen}|{m.avgNum}/{m.avgDen}|{m.monthNames.length}|{m.monthNamesAb.length}"))
  | _ => "bad-request"

end Starcal.Drv
