import Starcal.DivMod
import Starcal.Bisect
/-! Driver side of the small arithmetic streams (C19). -/
namespace Starcal.Drv

def parseInts (s : String) : Option (List Int) :=
  if s == "-" then some [] else (s.splitOn ",").mapM String.toInt?

def showInts (l : List Int) : String :=
  if l.isEmpty then "-" else ",".intercalate (l.map toString)

def miscRequest (toks : List String) : String :=
  match toks with
  | ["divmod", a, b] =>
    match a.toInt?, b.toInt? with
    | some x, some y =>
      if y == 0 then "bad-request" else s!"{goDiv x y} {goMod x y}"
    | _, _ => "bad-request"
  | ["bisect", v, l] =>
    match v.toInt?, parseInts l with
    | some x, some a => toString (bisectLeft a x)
    | _, _ => "bad-request"
  | ["intmin", a, b] =>
    match a.toInt?, b.toInt? with
    | some x, some y => toString (intMin x y)
    | _, _ => "bad-request"
  | _ => "bad-request"

end Starcal.Drv
