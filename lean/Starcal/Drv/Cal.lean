import Starcal.Julian
import Starcal.Greg
import Starcal.Proleptic
import Starcal.Indian
import Starcal.Ethiopian
import Starcal.Hijri
import Starcal.HijriT
import Starcal.Jalali
import Starcal.Jal2820
/-! Driver side of the calendar streams: a uniform record of the nine calendar
    configurations over the model definitions, single requests and block hashes. -/
namespace Starcal.Drv

/-- One calendar configuration of the model, uniform interface. -/
structure Cal where
  jdTo : Int → Int × Int × Int
  toJd : Int → Int → Int → Int
  isLeap : Int → Bool
  monthLen : Int → Int → Int
  skipYear0 : Bool := false

def calJul : Cal where
  jdTo jd := let d := Julian.jdTo jd; (d.year, d.month, d.day)
  toJd y m d := Julian.toJd ⟨y, m, d⟩
  isLeap := Julian.isLeap
  monthLen := Julian.monthLen

def calGreg : Cal where
  jdTo jd := let d := gJdTo jd; (d.year, d.month, d.day)
  toJd y m d := gToJd ⟨y, m, d⟩
  isLeap := gIsLeap
  monthLen := gMonthLen

def calGprol : Cal where
  jdTo jd := let d := pJdTo jd; (d.year, d.month, d.day)
  toJd y m d := pToJd ⟨y, m, d⟩
  isLeap := pIsLeap
  monthLen := pMonthLen
  skipYear0 := true

def calInd : Cal where
  jdTo jd := let d := iJdTo jd; (d.year, d.month, d.day)
  toJd y m d := iToJd ⟨y, m, d⟩
  isLeap := iIsLeap
  monthLen := iMonthLen

def calEth : Cal where
  jdTo jd := let d := Ethiopian.jdTo jd; (d.year, d.month, d.day)
  toJd y m d := Ethiopian.toJd ⟨y, m, d⟩
  isLeap := Ethiopian.isLeap
  monthLen := Ethiopian.monthLen

def calHijA : Cal where
  jdTo jd := let d := Hijri.jdTo jd; (d.year, d.month, d.day)
  toJd y m d := Hijri.toJd ⟨y, m, d⟩
  isLeap := Hijri.isLeap
  monthLen := Hijri.monthLen

def calHijT : Cal where
  jdTo jd := let d := HijriT.jdToT jd; (d.year, d.month, d.day)
  toJd y m d := HijriT.toJdT ⟨y, m, d⟩
  isLeap := Hijri.isLeap
  monthLen := HijriT.monthLenT

def calJal33 : Cal where
  jdTo jd := let d := Jalali.jdTo jd; (d.year, d.month, d.day)
  toJd y m d := Jalali.toJd ⟨y, m, d⟩
  isLeap := Jalali.isLeap
  monthLen := Jalali.monthLen

def calJal2820 : Cal where
  jdTo jd := let d := Jalali.jdTo2 jd; (d.year, d.month, d.day)
  toJd y m d := Jalali.toJd2 ⟨y, m, d⟩
  isLeap := Jalali.isLeap2
  monthLen := Jalali.monthLen2

def calOf : String → Option Cal
  | "jul" => some calJul
  | "greg" => some calGreg
  | "gprol" => some calGprol
  | "ind" => some calInd
  | "eth" => some calEth
  | "hij-a" => some calHijA
  | "hij-t" => some calHijT
  | "jal33" => some calJal33
  | "jal2820" => some calJal2820
  | _ => none

/-- Go's `uint8(x)` on the month / day / month-length fields. -/
@[inline] def n8 (x : Int) : Int := x % 256

@[inline] def mix (h : UInt64) (v : Int) : UInt64 :=
  (h ^^^ v.toInt64.toUInt64) * 1099511628211

def hashInit : UInt64 := 14695981039346656037

def hex (h : UInt64) : String := String.ofList (Nat.toDigits 16 h.toNat)

/-- hash of `jdTo` over `[lo, lo+n)` -/
def hashJd (c : Cal) (lo : Int) (n : Nat) : UInt64 := Id.run do
  let mut h := hashInit
  for k in [0:n] do
    let (y, m, d) := c.jdTo (lo + (k : Int))
    h := mix (mix (mix h y) (n8 m)) (n8 d)
  return h

/-- number of days of month (y, m) enumerated by the year sweeps: the reported length
    clamped to 1..40 (so that a wild length cannot make the sweep explode) -/
@[inline] def clampLen (l : Int) : Nat := if l < 1 then 1 else if l > 40 then 40 else l.toNat

/-- hash over the years `[ylo, ylo+n)`: leap flag, and per month the reported length and
    `toJd` of every day 1..length -/
def hashYm (c : Cal) (ylo : Int) (n : Nat) : UInt64 := Id.run do
  let mut h := hashInit
  for k in [0:n] do
    let y := ylo + (k : Int)
    if c.skipYear0 && y == 0 then continue
    h := mix h (if c.isLeap y then 1 else 0)
    for mi in [0:12] do
      let m : Int := (mi : Int) + 1
      let l := n8 (c.monthLen y m)
      h := mix h l
      for di in [0:clampLen l] do
        h := mix h (c.toJd y m ((di : Int) + 1))
  return h

def listJd (c : Cal) (lo : Int) (n : Nat) : String := Id.run do
  let mut s := ""
  for k in [0:n] do
    let (y, m, d) := c.jdTo (lo + (k : Int))
    s := s ++ s!"{y}/{n8 m}/{n8 d};"
  return s

def listYm (c : Cal) (ylo : Int) (n : Nat) : String := Id.run do
  let mut s := ""
  for k in [0:n] do
    let y := ylo + (k : Int)
    if c.skipYear0 && y == 0 then continue
    s := s ++ s!"{y}:{if c.isLeap y then 1 else 0}"
    for mi in [0:12] do
      let m : Int := (mi : Int) + 1
      let l := n8 (c.monthLen y m)
      s := s ++ s!",{l}:{c.toJd y m 1}:{c.toJd y m (clampLen l : Nat)}"
    s := s ++ ";"
  return s

def calRequest (toks : List String) : String :=
  match toks with
  | [op, cfg, a] =>
    match calOf cfg, a.toInt? with
    | some c, some x =>
      if op == "jdto" then let (y, m, d) := c.jdTo x; s!"{y} {n8 m} {n8 d}"
      else if op == "leap" then (if c.isLeap x then "1" else "0")
      else "bad-request"
    | _, _ => "bad-request"
  | [op, cfg, a, b] =>
    match calOf cfg, a.toInt?, b.toInt? with
    | some c, some x, some y =>
      if op == "mlen" then toString (n8 (c.monthLen x y))
      else if op == "hjd" then hex (hashJd c x (y - x).toNat)
      else if op == "hym" then hex (hashYm c x (y - x).toNat)
      else if op == "ljd" then listJd c x (y - x).toNat
      else if op == "lym" then listYm c x (y - x).toNat
      else "bad-request"
    | _, _, _ => "bad-request"
  | ["tojd", cfg, a, b, d] =>
    match calOf cfg, a.toInt?, b.toInt?, d.toInt? with
    | some c, some y, some m, some dd => toString (c.toJd y m dd)
    | _, _, _, _ => "bad-request"
  | _ => "bad-request"

end Starcal.Drv
