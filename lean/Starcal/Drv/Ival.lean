import Starcal.Inter
import Starcal.Human
import Starcal.Ranges
import Starcal.NumList
import Starcal.IvalText
import Starcal.Drv.Misc
/-! Driver side of the interval streams (C04, C05, C13). -/
namespace Starcal.Drv
open Starcal.Ival

def hexVal (c : Char) : Option Nat :=
  if '0' ≤ c ∧ c ≤ '9' then some (c.toNat - 48)
  else if 'a' ≤ c ∧ c ≤ 'f' then some (c.toNat - 87) else none

/-- `x` + lowercase hex of the bytes → the bytes as characters -/
def unhex (s : String) : Option (List Char) :=
  match s.toList with
  | 'x' :: cs =>
    let rec go : List Char → Option (List Char)
      | [] => some []
      | a :: b :: r => do
        let x ← hexVal a; let y ← hexVal b; let t ← go r
        pure (Char.ofNat (16 * x + y) :: t)
      | _ => none
    go cs
  | _ => none

def hexDigit (n : Nat) : Char := if n < 10 then Char.ofNat (48 + n) else Char.ofNat (87 + n)
def tohex (cs : List Char) : String :=
  String.ofList ('x' :: cs.flatMap (fun c => [hexDigit (c.toNat / 16 % 16), hexDigit (c.toNat % 16)]))

def parseIv (s : String) : Option Interval :=
  match s.splitOn ":" with
  | [a, b, k] =>
    match a.toInt?, b.toInt? with
    | some x, some y => if k == "c" then some ⟨x, y, true⟩ else if k == "o" then some ⟨x, y, false⟩ else none
    | _, _ => none
  | _ => none

def parseIvs (s : String) : Option (List Interval) :=
  if s == "-" then some [] else (s.splitOn ",").mapM parseIv

def showIv (i : Interval) : String := s!"{i.start}:{i.stop}:{if i.closed then "c" else "o"}"
def showIvs (l : List Interval) : String := if l.isEmpty then "-" else ",".intercalate (l.map showIv)

def toIval (i : Interval) : Starcal.Ival := ⟨i.start, i.stop, i.closed⟩
def ofIval (i : Starcal.Ival) : Interval := ⟨i.start, i.stop, i.closed⟩
def toNum (i : Interval) : NumList.Interval := ⟨i.start, i.stop, i.closed⟩
def ofNum (i : NumList.Interval) : Interval := ⟨i.start, i.stop, i.closed⟩

/-- does some maximal digit run denote a number beyond int64 (> 2⁶³ − 1)? `strconv.ParseInt` then
    fails with a range error, which the unbounded-integer model of `parseInt` does not have: such
    texts are answered `unmodelled` (only totality is compared). Everything up to 2⁶³ − 1 — any number
    of leading zeros included — is inside the model. -/
def longDigitRun (cs : List Char) : Bool :=
  let rec go : List Char → Nat → Bool
    | [], v => v > 9223372036854775807
    | c :: r, v =>
      if v > 9223372036854775807 then true
      else if c.isDigit then go r (v * 10 + (c.toNat - 48)) else go r 0
  go cs 0

def resIvs : Res (List Starcal.Ival) → String
  | .ok l => "ok " ++ showIvs (l.map ofIval)
  | .err => "err"
  | .panic => "panic"

def ivalRequest (toks : List String) : String :=
  match toks with
  | ["norm", a] =>
    match parseIvs a with
    | some l => match normalize l with
      | some r => "ok " ++ showIvs r
      | none => "err"
    | none => "bad-request"
  | ["inter", a] =>
    match (a.splitOn ";").mapM parseIvs with
    | some ls => match intersectMany ls, normAll ls with
      | some r, some ns => "ok " ++ showIvs r ++ " " ++ ";".intercalate (ns.map showIvs)
      | _, _ => "err"
    | none => "bad-request"
  | ["human", a] =>
    match parseIvs a with
    | some l => "ok " ++ showIvs (humanize l)
    | none => "bad-request"
  | ["extract", a] =>
    match parseIvs a with
    | some l => "ok " ++ showInts (extractI l)
    | none => "bad-request"
  | ["bynum", k, a] =>
    match k.toNat?, parseInts a with
    | some kk, some ns => "ok " ++ showIvs ((NumList.byNumList ns kk).map ofNum)
    | _, _ => "bad-request"
  | ["show", a] =>
    match parseIv a with
    | some i => "ok " ++ tohex (showIval (toIval i))
    | none => "bad-request"
  | ["showlist", a] =>
    match parseIvs a with
    | some l => "ok " ++ tohex (showIvalList (l.map toIval))
    | none => "bad-request"
  | ["parse", h] =>
    match unhex h with
    | some cs => if longDigitRun cs then "unmodelled" else
      match parseIntervalTop cs with
      | .ok i => "ok " ++ showIv (ofIval i)
      | .err => "err"
      | .panic => "panic"
    | none => "bad-request"
  | ["parselist", h] =>
    match unhex h with
    | some cs => if longDigitRun cs then "unmodelled" else resIvs (parseIntervalList cs)
    | none => "bad-request"
  | ["parseclosed", h] =>
    match unhex h with
    | some cs => if longDigitRun cs then "unmodelled" else resIvs (parseClosedIntervalList cs)
    | none => "bad-request"
  | _ => "bad-request"

end Starcal.Drv
