import Starcal.RaceA
import Starcal.Gen.LockSeq
import Starcal.Gen.LockSkel
import Std.Data.HashSet
/-! Driver side of the lock streams (C16, C17): dump of the regenerated sequences, the static
    discipline per entry, and an explicit-state search of the MODEL for a deadlock schedule (used only
    to look for a failing schedule, which is then replayed on the real code). -/
namespace Starcal.Drv
open Starcal.Lock

def actTok : Act → String
  | .rlock x => s!"rlock{x}"
  | .runlock x => s!"runlock{x}"
  | .wlock x => s!"wlock{x}"
  | .unlock x => s!"unlock{x}"
  | .access x w => s!"access{x}{if w then "w" else "r"}"

def parseAct (t : String) : Option Act :=
  let num (p : String) : Option Nat := (t.drop p.length).toNat?
  if t.startsWith "runlock" then (num "runlock").map .runlock
  else if t.startsWith "rlock" then (num "rlock").map .rlock
  else if t.startsWith "wlock" then (num "wlock").map .wlock
  else if t.startsWith "unlock" then (num "unlock").map .unlock
  else if t.startsWith "access" then
    let body := t.drop 6
    let w := body.endsWith "w"
    (body.dropRight 1).toNat?.map (fun x => .access x w)
  else none

def showActs (l : List Act) : String := if l.isEmpty then "-" else ",".intercalate (l.map actTok)

def stateKey (s : List Thread) : String :=
  "|".intercalate (s.map (fun th => s!"{th.held.map (fun p => (p.1, p.2))}/{th.pend}/{th.prog.length}"))

/-- breadth-first search for a reachable state in which some thread is unfinished and nobody can
    move; returns the schedule (thread index per step) leading to it -/
partial def findDeadlock (init : List Thread) (limit : Nat) : Option (List Nat) := Id.run do
  let mut frontier : Array (List Thread × List Nat) := #[(init, [])]
  let mut seen : Std.HashSet String := {}
  seen := seen.insert (stateKey init)
  let mut visited := 0
  while !frontier.isEmpty do
    let mut next : Array (List Thread × List Nat) := #[]
    for (s, sched) in frontier do
      visited := visited + 1
      if visited > limit then return none
      let mut moved := false
      for k in [0:s.length] do
        match s[k]? with
        | some th =>
          match tstepB s th with
          | some th' =>
            moved := true
            let s' := s.set k th'
            let key := stateKey s'
            if !seen.contains key then
              seen := seen.insert key
              next := next.push (s', k :: sched)
          | none => pure ()
        | none => pure ()
      if !moved && s.any (fun th => !th.prog.isEmpty) then
        return some sched.reverse
    frontier := next
  return none

def locksRequest (toks : List String) : String :=
  match toks with
  | ["seqs"] => ";".intercalate (Gen.lockSeqs.map (fun e => s!"{e.1}:{e.2.1}:{showActs e.2.2}"))
  | ["skels"] => ";".intercalate (Gen.lockSkels.map (fun e => s!"{e.1}:{e.2.1}:{showActs e.2.2}"))
  | ["disc"] => ";".intercalate (Gen.lockSeqs.map (fun e => s!"{e.1}:{e.2.1}:{if disc [] e.2.2 then 1 else 0}"))
  | ["disc1", prog] =>
    match (prog.splitOn ",").mapM parseAct with
    | some acts => if disc [] acts then "1" else "0"
    | none => "bad-request"
  | ["discA1", prog] =>           -- access discipline (C16)
    match (prog.splitOn ",").mapM parseAct with
    | some acts => if discA [] acts then "1" else "0"
    | none => "bad-request"
  | ["discL1", prog] =>           -- lock discipline of the skeleton (C17)
    match (prog.splitOn ",").mapM parseAct with
    | some acts => if disc [] (skeleton acts) then "1" else "0"
    | none => "bad-request"
  | ["dlsearch", progs] =>
    match (progs.splitOn "|").mapM (fun p => (p.splitOn ",").mapM parseAct) with
    | some ps =>
      let init : List Thread := ps.map (fun acts => ⟨[], false, acts⟩)
      match findDeadlock init 200000 with
      | some sched => "deadlock " ++ ",".intercalate (sched.map toString)
      | none => "none"
    | none => "bad-request"
  | _ => "bad-request"

end Starcal.Drv
