import Starcal.FHour
/-! Driver side of the time-of-day stream (C18). -/
namespace Starcal.Drv
open Starcal.FHour

def showHMS (x : HMS) : String := s!"{x.hour} {x.minute} {x.second}"

/-- exact rational value of a finite IEEE-754 double given by its bit pattern -/
def doubleToRat (bits : Nat) : Option Rat :=
  let sign : Nat := bits / 2^63 % 2
  let e : Nat := bits / 2^52 % 2048
  let m : Nat := bits % 2^52
  if e == 2047 then none
  else
    let (mant, ex) : Nat × Int := if e == 0 then (m, -1074) else (m + 2^52, (e : Int) - 1075)
    let v : Rat := if ex ≥ 0 then ((mant * 2 ^ ex.toNat : Nat) : Rat) else (mant : Rat) / ((2 ^ (-ex).toNat : Nat) : Rat)
    some (if sign == 1 then -v else v)

def splitTotal (t : Int) : HMS := ⟨t / 3600, t / 60 % 60, t % 60⟩

def todRequest (toks : List String) : String :=
  match toks with
  | ["secs", s] =>
    match s.toInt? with
    | some n => showHMS (hmsBySeconds n)
    | none => "bad-request"
  | [op, a, b, c] =>
    match a.toInt?, b.toInt?, c.toInt? with
    | some h, some m, some s =>
      if op == "total" then toString (totalSeconds ⟨h, m, s⟩)
      else if op == "rt" then showHMS (ofFloatHour (floatHour ⟨h, m, s⟩))
      else "bad-request"
    | _, _, _ => "bad-request"
  | ["fh", b] =>
    match b.toNat? with
    | some bits =>
      match doubleToRat bits with
      | some q =>
        -- the float code evaluates fh*3600+0.5 with rounding: when the exact value is within 1e-6 of
        -- an integer both neighbours are acceptable answers
        let v := q * 3600 + 1 / 2
        let fl := v.floor
        let frac := v - (fl : Rat)
        let main := showHMS (ofFloatHour q)
        if frac < 1 / 1000000 then main ++ " | " ++ showHMS (splitTotal (fl - 1))
        else if frac > 1 - 1 / 1000000 then main ++ " | " ++ showHMS (splitTotal (fl + 1))
        else main
      | none => "bad-request"
    | none => "bad-request"
  | _ => "bad-request"

end Starcal.Drv
