import Starcal.OccModel
import Starcal.Drv.Ival
/-! Driver side of the zone streams (C10, C11) and the occurrence stream (C12). The current zone is
    driver state: `zone set …` installs it for the requests that follow. -/
namespace Starcal.Drv
open Starcal.ZoneModel Starcal.Ival Starcal.OccModel

def parseTrans (s : String) : Option (List (Int × Int)) :=
  if s == "-" then some [] else
  (s.splitOn ",").mapM (fun p => match p.splitOn ":" with
    | [a, b] => match a.toInt?, b.toInt? with
      | some x, some y => some (x, y)
      | _, _ => none
    | _ => none)

def parseOcc (s : String) : Option Occ :=
  if s.startsWith "J:" then (parseInts (s.drop 2).toString).map Occ.jds
  else if s.startsWith "I:" then (parseIvs (s.drop 2).toString).map Occ.ivs
  else none

def showOcc (z : TZ) (o : Occ) : String :=
  let kind := match o with
    | .jds l => "J:" ++ showInts (dedupSorted l)
    | .ivs l => "I:" ++ showIvs l
  kind ++ " days=" ++ showInts (occDays z o)

def startEnd (z : TZ) : Occ → String
  | .jds l => match dedupSorted l with
    | [] => "-"
    | x :: r => s!"{x} {(x :: r).getLast!}"
  | .ivs l => match l with
    | [] => "-"
    | i :: r =>
      let s := (i :: r).foldl (fun m j => min m j.start) i.start
      let e := (i :: r).foldl (fun m j => max m j.stop) i.stop
      s!"{getJdByEpoch z s} {getJdByEpoch z e}"

def zoneRequest (z : TZ) (toks : List String) : String :=
  match toks with
  | ["jdby", e] => match e.toInt? with
    | some x => toString (getJdByEpoch z x)
    | none => "bad-request"
  | ["jhms", e] => match e.toInt? with
    | some x => let j := getJhmsByEpoch z x; s!"{j.1} {j.2.1} {j.2.2.1} {j.2.2.2} {secondsOfDay z x} {off z x}"
    | none => "bad-request"
  | ["epochby", jd, h, m, s] =>
    match jd.toInt?, h.toInt?, m.toInt?, s.toInt? with
    | some a, some b, some c, some d => toString (getEpochByJhms z a b c d)
    | _, _, _, _ => "bad-request"
  | ["dayiv", jd] => match jd.toInt? with
    | some a => let p := intervalByJd z a; s!"{p.1} {p.2}"
    | none => "bad-request"
  | ["jdrange", s, e] => match s.toInt?, e.toInt? with
    | some a, some b => let p := getJdRange z a b; s!"{p.1} {p.2}"
    | _, _ => "bad-request"
  | ["midreg", jd] => match jd.toInt? with
    | some a => if dayRegular z a then "1" else "0"
    | none => "bad-request"
  | ["occ", a, b] =>
    match parseOcc a, parseOcc b with
    | some x, some y =>
      let one (p q : Occ) : String := match occInter z p q with
        | some r => showOcc z r
        | none => "err"
      s!"{one x y} | {one y x} | {showOcc z x} {startEnd z x} | {showOcc z y} {startEnd z y}"
    | _, _ => "bad-request"
  | _ => "bad-request"

end Starcal.Drv
