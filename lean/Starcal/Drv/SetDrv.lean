import Starcal.SetHist
import Starcal.SetPow
/-! Driver side of the set stream (C15): a register machine over three named sets; elements are
    tokens (`i3` an int, `sfoo` a string). Observations that depend on map iteration order are
    sorted on both sides. -/
namespace Starcal.Drv
open Starcal.SetM

def sortStrs (l : List String) : List String := (l.toArray.qsort (· < ·)).toList

def showSet (l : List String) : String := "{" ++ ",".intercalate (sortStrs l) ++ "}"

def b01' (b : Bool) : String := if b then "1" else "0"

/-- one operation: new state and the output token -/
def setStep (s : St String) (toks : List String) : St String × String :=
  let reg (t : String) : Nat := t.toNat?.getD 0
  match toks with
  | ["add", r, v] => let p := step s (.add (reg r) v); (p.1, match p.2 with | .bool b => b01' b | _ => "?")
  | ["rm", r, v] => ((step s (.remove (reg r) v)).1, "-")
  | ["clear", r] => ((step s (.clear (reg r))).1, "-")
  | ["has", r, vs] => (s, b01' ((vs.splitOn ",").all (fun v => contains (s (reg r)) v)))
  | ["card", r] => (s, toString (card (s (reg r))))
  | ["union", d, a, b] => ((step s (.union (reg d) (reg a) (reg b))).1, "-")
  | ["inter", d, a, b] => ((step s (.inter (reg d) (reg a) (reg b))).1, "-")
  | ["diff", d, a, b] => ((step s (.diff (reg d) (reg a) (reg b))).1, "-")
  | ["sym", d, a, b] => ((step s (.sym (reg d) (reg a) (reg b))).1, "-")
  | ["clone", d, a] => ((step s (.clone (reg d) (reg a))).1, "-")
  | ["sub", a, b] => (s, b01' (isSubset (s (reg a)) (s (reg b))))
  | ["sup", a, b] => (s, b01' (isSubset (s (reg b)) (s (reg a))))     -- IsSuperset = other.IsSubset(set)
  | ["eq", a, b] => (s, b01' (equal (s (reg a)) (s (reg b))))
  | ["slice", r] => (s, showSet (s (reg r)))
  | ["iter", r] => (s, showSet (s (reg r)))
  | ["str", r] => (s, showSet (s (reg r)))
  | ["cart", a, b] =>
    (s, "{" ++ ",".intercalate (sortStrs ((cartesian (s (reg a)) (s (reg b))).map (fun p => s!"({p.1}|{p.2})"))) ++ "}")
  | ["pow", a] => (s, "{" ++ ",".intercalate (sortStrs ((powerSet (s (reg a))).map showSet)) ++ "}")
  | _ => (s, "bad-op")

def setRequest (toks : List String) : String :=
  match toks with
  | ["ops", _impl, prog] =>
    let ops := prog.splitOn ";"
    let init : St String := fun _ => []
    let (_, outs) := ops.foldl (fun (acc : St String × List String) op =>
      let (s', o) := setStep acc.1 (op.splitOn ":")
      (s', o :: acc.2)) (init, [])
    ";".intercalate outs.reverse
  | _ => "bad-request"

end Starcal.Drv
