import Starcal.Rules
import Starcal.Drv.Ival
import Starcal.Drv.Cal
/-! Driver side of the rule-decoding stream (C08, C09) and of the date/time text stream (C14). -/
namespace Starcal.Drv
open Starcal.Rules

def showDateV (d : DateV) : String := s!"{d.year}/{d.month}/{d.day}"
def showHMSv (x : HMS) : String := s!"{x.hour}:{x.minute}:{x.second}"

def showVal : Val → String
  | .str s => "str " ++ tohex s
  | .int n => s!"int {n}"
  | .intList l =>
    if l.length > 64 then s!"intlist# {l.length} {hex (l.foldl mix hashInit)}" else "intlist " ++ showInts l
  | .hms x => "hms " ++ showHMSv x
  | .dhms d x => s!"dhms {d} {showHMSv x}"
  | .hmsRange a b => s!"hmsrange {showHMSv a} {showHMSv b}"
  | .date d => "date " ++ showDateV d
  | .dateList l => "datelist " ++ (if l.isEmpty then "-" else ",".intercalate (l.map showDateV))
  | .dateHMS d x => s!"datehms {showDateV d} {showHMSv x}"
  | .duration x => s!"dur {if x.neg then "-" else ""}{x.num}/{x.den} {String.ofList x.unit} {x.seconds}"
  | .weekMonth a b c => s!"wm {a} {b} {c}"

/-- is the number part of a Duration text inside the modelled decimal grammar (and short enough
    that float64 rounding of the decimal is the only inexactness)? -/
def durationModelled (s : List Char) : Bool :=
  match splitOn ' ' s with
  | [p0, _] =>
    let body := match p0 with | '-' :: r => r | '+' :: r => r | r => r
    body.length ≤ 30 && body.all (fun c => c.isDigit || c == '.') && (body.filter (· == '.')).length ≤ 1
  | _ => true     -- wrong number of parts: an error on both sides

def decodeLine (typeName : String) (s : List Char) : String :=
  let dec := (ruleOf typeName).map (·.decoder)
  if longDigitRun s then "unmodelled"
  else if dec == some "Duration" && !durationModelled s then "unmodelled"
  else
    match decode typeName s with
    | .ok v =>
      let c := match check typeName v with | .ok true => "1" | .ok false => "0" | .panic => "panic"
      s!"ok {showVal v} check={c}"
    | .err => "err"
    | .panic => "panic"
    | .unmodelled => "unmodelled"

def optLine (f : α → String) : Option α → String
  | some a => "ok " ++ f a
  | none => "err"

def b01 (b : Bool) : String := if b then "1" else "0"

def textShow (toks : List String) : String :=
  match toks with
  | ["sdate", y, m, d] =>
    match y.toInt?, m.toInt?, d.toInt? with
    | some yy, some mm, some dd => "ok " ++ tohex (showDate ⟨yy, mm, dd⟩)
    | _, _, _ => "bad-request"
  | ["shms", a, b, c] =>
    match a.toInt?, b.toInt?, c.toInt? with
    | some h, some m, some s => "ok " ++ tohex (showHMS ⟨h, m, s⟩)
    | _, _, _ => "bad-request"
  | ["sdhms", d, a, b, c] =>
    match d.toInt?, a.toInt?, b.toInt?, c.toInt? with
    | some dd, some h, some m, some s => "ok " ++ tohex (showDHMS dd ⟨h, m, s⟩)
    | _, _, _, _ => "bad-request"
  | ["sdatehms", y, mo, d, a, b, c] =>
    match y.toInt?, mo.toInt?, d.toInt?, a.toInt?, b.toInt?, c.toInt? with
    | some yy, some mm, some dd, some h, some m, some s => "ok " ++ tohex (showDateHMS ⟨yy, mm, dd⟩ ⟨h, m, s⟩)
    | _, _, _, _, _, _ => "bad-request"
  | _ => "bad-request"

def textRequest (toks : List String) : String :=
  match toks with
  | op :: h :: _ =>
    if op.startsWith "s" then textShow toks else
    match unhex h with
    | none => "bad-request"
    | some s =>
      if longDigitRun s then "unmodelled"
      else if op == "pdate" then optLine (fun d => s!"{showDateV d} valid={b01 d.isValid}") (parseDate narrowNew s)
      else if op == "phms" then optLine (fun x => s!"{showHMSv x} valid={b01 x.isValid}") (parseHMS narrowNew s)
      else if op == "pdhms" then optLine (fun (p : Int × HMS) => s!"{p.1} {showHMSv p.2} valid={b01 p.2.isValid}") (parseDHMS true s)
      else if op == "pdatehms" then optLine (fun (p : DateV × HMS) => s!"{showDateV p.1} {showHMSv p.2} valid={b01 (p.1.isValid && p.2.isValid)}") (parseDateHMS s)
      else if op == "phmsrange" then optLine (fun (p : HMS × HMS) => s!"{showHMSv p.1} {showHMSv p.2} valid={b01 (p.1.isValid && p.2.isValid)}") (parseHMSRange s)
      else if op == "pdatelist" then optLine (fun (l : List DateV) => if l.isEmpty then "-" else ",".intercalate (l.map showDateV)) (parseDateList s)
      else if op == "pintlist" then optLine showInts (parseIntList s)
      else if op == "pdur" then
        (if !durationModelled s then "unmodelled"
         else optLine (fun (x : DurationV) => s!"{if x.neg then "-" else ""}{x.num}/{x.den} {String.ofList x.unit} {x.seconds} valid={b01 x.isValid}") (parseDuration s))
      else "bad-request"
  | _ => "bad-request"

def rulesRequest (toks : List String) : String :=
  match toks with
  | "decode" :: t :: h :: _ =>          -- further tokens: the generator's expectation, for the oracle only
    match unhex h with
    | some s => decodeLine t s
    | none => "bad-request"
  | ["types"] => ",".intercalate (Gen.ruleTypes.map (fun r => s!"{r.name}:{r.order}:{b01 r.hasChecker}"))
  | _ => "bad-request"

end Starcal.Drv
