import Starcal.ZoneModel
import Starcal.Inter2
import Starcal.SetM
/-! Occurrence sets (occurrence/occurrence.go): a set of days or a list of epoch intervals, their
    intersection, the days they report (C12). -/
namespace Starcal.OccModel
open Starcal.ZoneModel Starcal.Ival

/-- days with at least one instant of the interval: GetDaysJdList of one interval -/
def daysOfInterval (z : TZ) (i : Interval) : List Int :=
  let a := getJdByEpoch z i.start
  let b := if i.closed then getJdByEpoch z i.stop else getJdByEpoch z (i.stop - 1)
  (List.range (b - a + 1).toNat).map (fun (k : Nat) => a + (k : Int))

def dedupSorted (l : List Int) : List Int := (l.toArray.qsort (· < ·)).toList.eraseDups

/-- an occurrence set: days or epoch intervals -/
inductive Occ where
  | jds (l : List Int)
  | ivs (l : List Interval)
deriving DecidableEq

/-- the JdSet of a JdOccurSet: a set built by adding the days one by one (C15's model) -/
def toSet (l : List Int) : List Int := l.foldl (fun acc e => (SetM.add acc e).1) []

theorem toSet_nodup (l : List Int) : (toSet l).Nodup := SetM.nodup_foldl_add l [] List.nodup_nil
theorem mem_toSet (l : List Int) (v : Int) : v ∈ toSet l ↔ v ∈ l := by
  unfold toSet; rw [SetM.mem_foldl_add]; simp

/-- JdOccurSet.GetEpochIntervalList: one interval per day -/
def occIntervals (z : TZ) : Occ → List Interval
  | .jds l => (toSet l).map (fun jd => let p := intervalByJd z jd; ⟨p.1, p.2, false⟩)
  | .ivs l => l

/-- OccurSet.Intersection -/
def occInter (z : TZ) (a b : Occ) : Option Occ :=
  match a, b with
  | .jds x, .jds y => some (.jds ((toSet x).filter (fun v => y.contains v)))
  | _, _ => (intersectMany [occIntervals z a, occIntervals z b]).map Occ.ivs

def occDays (z : TZ) : Occ → List Int
  | .jds l => dedupSorted l
  | .ivs l => dedupSorted (l.flatMap (daysOfInterval z))


end Starcal.OccModel
