import Starcal.Jalali
import Starcal.Jal
/-! Starcal: Jalali calendar, 2820-year algorithm (jalali.go with alg2820 = true). -/
namespace Starcal.Jalali

def Epoch : Int := 1948321

def isLeap2 (year : Int) : Bool := decide ((((year - 474) % 2820) * 682) % 2816 < 682)

def toJd2 (d : Date) : Int :=
  let epbase := d.year - 474
  let ed := epbase / 2820
  let em := epbase % 2820
  let epyear := 474 + em
  let mm := d.month - 1
  d.day + mm * 30 + (if 6 < mm then 6 else mm) + (epyear * 682 - 110) / 2816 + (epyear - 1) * 365 +
    ed * 1029983 + Epoch - 1

def jdTo2 (jd : Int) : Date :=
  let deltaDays := jd - toJd2 ⟨475, 1, 1⟩
  let cycle := deltaDays / 1029983
  let cyear := deltaDays % 1029983
  let ycycle := if cyear = 1029982 then 2820 else Starcal.ycycle cyear
  let year := 2820 * cycle + ycycle + 474
  let yday := jd - toJd2 ⟨year, 1, 1⟩ + 1
  let md := getMonthDay yday
  ⟨year, md.1, md.2⟩

def monthLen2 (y m : Int) : Int :=
  if m = 12 then (if isLeap2 y then 30 else 29) else monthLenTab.getD (m - 1).toNat 0

def WF2 (d : Date) : Prop := 1 ≤ d.month ∧ d.month ≤ 12 ∧ 1 ≤ d.day ∧ d.day ≤ monthLen2 d.year d.month

theorem toJd2_475 : toJd2 ⟨475, 1, 1⟩ = 2121446 := by decide

/-- month offsets: mm*30 + min(6,mm) is the cumulative table -/
theorem month_off (m : Int) (h1 : 1 ≤ m) (h2 : m ≤ 12) :
    (m - 1) * 30 + (if 6 < m - 1 then 6 else m - 1) = sumAt (m - 1) := by
  rcases month_cases h1 h2 with h|h|h|h|h|h|h|h|h|h|h|h <;> subst h <;> decide

/-- first day of the year with cycle number `cyc` and year-in-cycle `yc ∈ 1..2820`, relative to 1/1/475 -/
theorem yearStart_rel (cyc yc : Int) (h1 : 1 ≤ yc) (h2 : yc ≤ 2820) :
    toJd2 ⟨2820 * cyc + yc + 474, 1, 1⟩ = 2121446 + 1029983 * cyc + Starcal.ys2820 (yc - 1) := by
  unfold toJd2 Starcal.ys2820 Epoch
  simp only
  have e0 : 2820 * cyc + yc + 474 - 474 = 2820 * cyc + yc := by omega
  rw [e0]
  by_cases h : yc = 2820
  · subst h
    have e1 : (2820 * cyc + 2820) / 2820 = cyc + 1 := by omega
    have e2 : (2820 * cyc + 2820) % 2820 = 0 := by omega
    rw [e1, e2]; simp; omega
  · have e1 : (2820 * cyc + yc) / 2820 = cyc := by omega
    have e2 : (2820 * cyc + yc) % 2820 = yc := by omega
    rw [e1, e2]
    have e3 : ((474 + yc) * 682 - 110) / 2816 = 115 + (31 * (yc - 1)) / 128 := by omega
    rw [e3]; simp; omega

/-- length of the year in cycle position yc -/
theorem leap2_cycle (cyc yc : Int) (h1 : 1 ≤ yc) (h2 : yc ≤ 2820) :
    isLeap2 (2820 * cyc + yc + 474) = decide ((31 * yc) % 128 < 31 ∨ yc = 2820) := by
  unfold isLeap2
  have e0 : 2820 * cyc + yc + 474 - 474 = 2820 * cyc + yc := by omega
  rw [e0]
  by_cases h : yc = 2820
  · subst h
    have e2 : (2820 * cyc + 2820) % 2820 = 0 := by omega
    rw [e2]; simp
  · have e2 : (2820 * cyc + yc) % 2820 = yc := by omega
    rw [e2]
    have e3 : yc * 682 % 2816 = 22 * ((31 * yc) % 128) := by
      have := Int.mul_emod_mul_of_pos (31 * yc) 128 (show (0:Int) < 22 by decide)
      have e : yc * 682 = 22 * (31 * yc) := by omega
      rw [e]; simpa using this
    rw [e3]
    have : (22 * ((31 * yc) % 128) < 682) ↔ ((31 * yc) % 128 < 31 ∨ yc = 2820) := by omega
    simp only [this]

theorem toJd2_eq (y m d : Int) (h1 : 1 ≤ m) (h2 : m ≤ 12) :
    toJd2 ⟨y, m, d⟩ = toJd2 ⟨y, 1, 1⟩ + sumAt (m - 1) + d - 1 := by
  have hoff := month_off m h1 h2
  unfold toJd2
  simp only
  generalize (if 6 < m - 1 then 6 else m - 1) = w at hoff ⊢
  have : ((1:Int) - 1) * 30 + (if (6:Int) < 1 - 1 then 6 else 1 - 1) = 0 := by decide
  omega

theorem jdTo2_spec (jd : Int) : WF2 (jdTo2 jd) ∧ toJd2 (jdTo2 jd) = jd := by
  unfold jdTo2
  simp only
  rw [toJd2_475]
  generalize hcyc : (jd - 2121446) / 1029983 = cyc
  generalize hcy : (jd - 2121446) % 1029983 = c
  have hc0 : 0 ≤ c ∧ c < 1029983 := by omega
  have hjd : jd = 2121446 + 1029983 * cyc + c := by omega
  -- the year in cycle and its bracket
  obtain ⟨yc, hyc, hyc1, hyc2, hlo, hhi⟩ : ∃ yc : Int, yc = (if c = 1029982 then 2820 else Starcal.ycycle c) ∧
      1 ≤ yc ∧ yc ≤ 2820 ∧ Starcal.ys2820 (yc - 1) ≤ c ∧
      (c < Starcal.ys2820 yc ∨ (yc = 2820 ∧ c = 1029982)) := by
    by_cases h : c = 1029982
    · refine ⟨2820, by simp [h], by omega, by omega, ?_, Or.inr ⟨rfl, h⟩⟩
      unfold Starcal.ys2820; omega
    · have := Starcal.ycycle_bracket c hc0.1 (by omega)
      exact ⟨Starcal.ycycle c, by simp [h], this.2.2.1, this.2.2.2, this.1, Or.inl this.2.1⟩
  rw [← hyc]
  have hys := yearStart_rel cyc yc hyc1 hyc2
  rw [hys]
  obtain ⟨yd, hyd⟩ : ∃ yd : Int, yd = c - Starcal.ys2820 (yc - 1) + 1 := ⟨_, rfl⟩
  have hydE : jd - (2121446 + 1029983 * cyc + Starcal.ys2820 (yc - 1)) + 1 = yd := by omega
  rw [hydE]
  have hleap := leap2_cycle cyc yc hyc1 hyc2
  -- year length
  have hlen : yd ≤ (if isLeap2 (2820 * cyc + yc + 474) then 366 else 365) ∧ 1 ≤ yd := by
    rw [hleap]
    unfold Starcal.ys2820 at hlo hhi hyd
    rcases hhi with hhi | ⟨h20, hc⟩
    · by_cases hl : (31 * yc) % 128 < 31 ∨ yc = 2820
      · simp only [hl, decide_true, if_true]; omega
      · simp only [hl, decide_false, Bool.false_eq_true, if_false]; omega
    · subst h20
      simp; omega
  obtain ⟨m, d, hm1, hm2, hd1, hd2, hydm, hm12⟩ := yday_month yd hlen.2 (by split at hlen <;> omega)
  have hmd := getMonthDay_spec m d hm1 hm2 hd1 hd2
  rw [← hydm] at hmd
  rw [hmd]
  simp only
  refine ⟨⟨hm1, hm2, hd1, ?_⟩, ?_⟩
  · simp only
    by_cases h11 : m ≤ 11
    · have := monthLen_eq 0 m hm1 h11
      unfold monthLen at this
      unfold monthLen2
      have hne : m ≠ 12 := by omega
      simp only [hne, if_false] at this ⊢
      rw [this]; exact hd2
    · have hmm : m = 12 := by omega
      have hd := hm12 hmm
      subst hmm
      unfold monthLen2
      simp only [if_true]
      split at hlen <;> rename_i hl <;> simp [hl] <;> omega
  · -- toJd2 of the result
    rw [toJd2_eq _ m d hm1 hm2, hys]
    omega

end Starcal.Jalali

#print axioms Starcal.Jalali.jdTo2_spec
