import Starcal.PInt
/-! Starcal: Interval.String / ParseInterval round trip (interval.go:25-45, 55-125) on the
    repaired parser. -/
namespace Starcal

def isDigit (c : Char) : Bool := 48 ≤ c.toNat && c.toNat ≤ 57

theorem isDigit_digitChar (n : Nat) (h : n < 10) : isDigit (digitChar n) = true := by
  have : n = 0 ∨ n = 1 ∨ n = 2 ∨ n = 3 ∨ n = 4 ∨ n = 5 ∨ n = 6 ∨ n = 7 ∨ n = 8 ∨ n = 9 := by omega
  rcases this with h|h|h|h|h|h|h|h|h|h <;> subst h <;> decide

theorem showNatAux_digits (fuel n : Nat) (acc : List Char) (hacc : ∀ c ∈ acc, isDigit c = true)
    (hf : n < fuel) : (∀ c ∈ showNatAux fuel n acc, isDigit c = true) ∧ showNatAux fuel n acc ≠ [] := by
  induction fuel generalizing n acc with
  | zero => omega
  | succ fuel ih =>
    unfold showNatAux
    split
    · rename_i h
      refine ⟨?_, by simp⟩
      intro c hc
      rcases List.mem_cons.mp hc with rfl | hc
      · exact isDigit_digitChar n h
      · exact hacc c hc
    · rename_i h
      apply ih
      · intro c hc
        rcases List.mem_cons.mp hc with rfl | hc
        · exact isDigit_digitChar _ (by omega)
        · exact hacc c hc
      · omega

theorem showNat_digits (n : Nat) : (∀ c ∈ showNat n, isDigit c = true) ∧ showNat n ≠ [] :=
  showNatAux_digits (n + 1) n [] (by simp) (by omega)

/-- fmt %d -/
def showInt (i : Int) : List Char := if i < 0 then '-' :: showNat (-i).toNat else showNat i.toNat

theorem parseInt_showInt (i : Int) : parseInt (showInt i) = some i := by
  unfold showInt
  by_cases h : i < 0
  · simp only [h, if_true]
    unfold parseInt
    have : ((-i).toNat : Int) = -i := Int.toNat_of_nonneg (by omega)
    simp [parseNat_showNat, this]
  · simp only [h, if_false]
    obtain ⟨hd, hne⟩ := showNat_digits i.toNat
    unfold parseInt
    -- the first character is a digit, so neither sign branch applies
    match hs : showNat i.toNat with
    | [] => exact absurd hs hne
    | c :: cs =>
      have hc := hd c (by rw [hs]; simp)
      have h1 : c ≠ '-' := by intro e; subst e; simp [isDigit] at hc
      have h2 : c ≠ '+' := by intro e; subst e; simp [isDigit] at hc
      split
      · rename_i ds heq; simp at heq; exact absurd heq.1 h1
      · rename_i ds heq; simp at heq; exact absurd heq.1 h2
      · rw [← hs, parseNat_showNat]
        have : (i.toNat : Int) = i := Int.toNat_of_nonneg (by omega)
        simp [this]

theorem indexOfDash_digits (ds rest : List Char) (hd : ∀ c ∈ ds, isDigit c = true) :
    indexOfDash (ds ++ '-' :: rest) = some ds.length := by
  induction ds with
  | nil => simp [indexOfDash]
  | cons c cs ih =>
    have hc := hd c (by simp)
    have h1 : c ≠ '-' := by intro e; subst e; simp [isDigit] at hc
    simp only [List.cons_append, indexOfDash, h1, if_false]
    rw [ih (fun x hx => hd x (List.mem_cons_of_mem _ hx))]
    simp

theorem indexOfDash_none (ds : List Char) (hd : ∀ c ∈ ds, isDigit c = true) : indexOfDash ds = none := by
  induction ds with
  | nil => simp [indexOfDash]
  | cons c cs ih =>
    have hc := hd c (by simp)
    have h1 : c ≠ '-' := by intro e; subst e; simp [isDigit] at hc
    simp [indexOfDash, h1, ih (fun x hx => hd x (List.mem_cons_of_mem _ hx))]

/-- shape of a printed integer: an optional '-', then a non-empty digit string -/
theorem showInt_shape (i : Int) : ∃ c cs, showInt i = c :: cs ∧ (∀ x ∈ cs, isDigit x = true) ∧
    (c = '-' ∨ isDigit c = true) ∧ (isDigit c = true ∨ cs ≠ []) := by
  unfold showInt
  by_cases h : i < 0
  · simp only [h, if_true]
    obtain ⟨hd, hne⟩ := showNat_digits (-i).toNat
    exact ⟨'-', _, rfl, hd, Or.inl rfl, Or.inr hne⟩
  · simp only [h, if_false]
    obtain ⟨hd, hne⟩ := showNat_digits i.toNat
    match hs : showNat i.toNat with
    | [] => exact absurd hs hne
    | c :: cs =>
      rw [hs] at hd
      exact ⟨c, cs, rfl, fun x hx => hd x (List.mem_cons_of_mem _ hx), Or.inr (hd c (by simp)),
        Or.inl (hd c (by simp))⟩


theorem not_prefix_of_shape (c : Char) (cs rest : List Char) (hcs : ∀ x ∈ cs, isDigit x = true)
    (hc : c = '-' ∨ isDigit c = true) (hne : isDigit c = true ∨ cs ≠ []) (hrest : rest.head? ≠ some '(') :
    "-(".toList.isPrefixOf (c :: cs ++ rest) = false := by
  by_cases h1 : c = '-'
  · subst h1
    cases cs with
    | nil =>
      rcases hne with h | h
      · simp [isDigit] at h
      · exact absurd rfl h
    | cons d ds =>
      have hd := hcs d (by simp)
      have : ('(' == d) = false := by
        simp; intro e; subst e; simp [isDigit] at hd
      simp [List.isPrefixOf, this]
  · have : ('-' == c) = false := by simp; exact fun e => h1 e.symm
    simp [List.isPrefixOf, this]

/-- the parser on a body `<int>-<nat>` whose closing bracket has already been stripped -/
def bodyResult (closedEnd : Bool) (a b : Int) : Res Ival := .ok ⟨a, b, closedEnd || a == b⟩

/-- parsing `<int>-<nat>` with an optional closing bracket -/
theorem parse_pair (fuel : Nat) (c : Char) (cs s2 : List Char) (a b : Int) (closed : Bool)
    (hcs : ∀ x ∈ cs, isDigit x = true) (hc : c = '-' ∨ isDigit c = true)
    (hne : isDigit c = true ∨ cs ≠ []) (hp1 : parseInt (c :: cs) = some a)
    (h2 : ∀ x ∈ s2, isDigit x = true) (h2ne : s2 ≠ []) (hp2 : parseInt s2 = some b) (hab : a ≠ b) :
    parseIntervalAux true (fuel + 1) ((c :: cs) ++ '-' :: s2 ++ (if closed then [']'] else [])) =
      .ok ⟨a, b, closed⟩ := by
  -- last character of s2 is a digit
  have hs2 := List.dropLast_concat_getLast h2ne
  generalize hl2 : s2.getLast h2ne = l2 at hs2
  generalize hs2i : s2.dropLast = s2i at hs2
  have hl2d : isDigit l2 = true := h2 l2 (by rw [← hs2]; simp)
  have hl2b : l2 ≠ ']' := by intro e; subst e; simp [isDigit] at hl2d
  -- the string before and after stripping the bracket
  obtain ⟨body, hbody⟩ : ∃ body, body = (c :: cs) ++ '-' :: s2 := ⟨_, rfl⟩
  have hbody2 : body = ((c :: cs) ++ '-' :: s2i) ++ [l2] := by rw [hbody, ← hs2]; simp
  have hstr0 : (c :: cs) ++ '-' :: s2 ++ (if closed then [']'] else []) =
      body ++ (if closed then [']'] else []) := by rw [hbody]
  rw [hstr0]
  unfold parseIntervalAux
  simp only []
  have hlast : ((body ++ (if closed then [']'] else [])).getLast? == some ']') = closed := by
    cases closed
    · simp only [Bool.false_eq_true, if_false, List.append_nil]
      rw [hbody2, List.getLast?_concat]; simp [hl2b]
    · simp only [if_true]
      rw [List.getLast?_concat]; simp
  have hstr : (if ((body ++ (if closed then [']'] else [])).getLast? == some ']') = true then
      (body ++ (if closed then [']'] else [])).dropLast else body ++ (if closed then [']'] else [])) = body := by
    rw [hlast]
    cases closed
    · simp
    · simp only [if_true]; rw [List.dropLast_concat]
  rw [hstr, hlast]
  have hbne : body.isEmpty = false := by rw [hbody]; simp
  simp only [hbne, Bool.and_false, Bool.false_eq_true, if_false]
  have hnp : "-(".toList.isPrefixOf body = false := by
    rw [hbody]
    exact not_prefix_of_shape c cs ('-' :: s2) hcs hc hne (by simp)
  simp only [hnp, Bool.false_eq_true, if_false]
  have hsl1 : slice body 1 body.length = .ok (cs ++ '-' :: s2) := by
    unfold slice
    have hle : 1 ≤ body.length ∧ body.length ≤ body.length := by rw [hbody]; simp
    rw [if_pos hle, List.take_length, hbody]; simp
  have hidx : indexOfDash (cs ++ '-' :: s2) = some cs.length := indexOfDash_digits cs s2 hcs
  have hsl2 : slice body 0 (cs.length + 1) = .ok (c :: cs) := by
    unfold slice; rw [hbody]; simp
  have hsl3 : slice body (cs.length + 2) body.length = .ok s2 := by
    unfold slice
    have hle : cs.length + 2 ≤ body.length ∧ body.length ≤ body.length := by
      rw [hbody]; simp only [List.length_append, List.length_cons]; omega
    rw [if_pos hle, List.take_length]
    have e1 : body = (c :: cs ++ ['-']) ++ s2 := by rw [hbody]; simp
    have e2 : cs.length + 2 = (c :: cs ++ ['-']).length := by simp
    rw [e1, e2, List.drop_left]
  rw [hsl1]
  simp only [hidx]
  rw [hsl2, hsl3]
  simp only [hp1, hp2]
  have : (a == b) = false := by simp [hab]
  simp [this]


/-- Interval.String (interval.go:25-45) -/
def showIval (i : Ival) : List Char :=
  if i.start > i.stop then "()".toList
  else if i.start = i.stop then (if i.closed then showInt i.start else "()".toList)
  else if i.stop < 0 ∧ i.start < 0 then
    '-' :: '(' :: (showNat (-i.start).toNat ++ '-' :: showNat (-i.stop).toNat ++ (if i.closed then [']'] else [])) ++ [')']
  else showInt i.start ++ '-' :: showInt i.stop ++ (if i.closed then [']'] else [])

def WFIv (i : Ival) : Prop := i.start < i.stop ∨ (i.start = i.stop ∧ i.closed = true)

theorem showNat_shape (n : Nat) : ∃ c cs, showNat n = c :: cs ∧ (∀ x ∈ cs, isDigit x = true) ∧ isDigit c = true := by
  obtain ⟨hd, hne⟩ := showNat_digits n
  match hs : showNat n with
  | [] => exact absurd hs hne
  | c :: cs =>
    rw [hs] at hd
    exact ⟨c, cs, rfl, fun x hx => hd x (List.mem_cons_of_mem _ hx), hd c (by simp)⟩

theorem parseInt_showNat (n : Nat) : parseInt (showNat n) = some (n : Int) := by
  have := parseInt_showInt (n : Int)
  unfold showInt at this
  have h : ¬ ((n : Int) < 0) := by omega
  simpa [h] using this

/-- a single number -/
theorem parse_single (fuel : Nat) (a : Int) :
    parseIntervalAux true (fuel + 1) (showInt a) = .ok ⟨a, a, true⟩ := by
  obtain ⟨c, cs, hs, hcs, hc, hne⟩ := showInt_shape a
  have hp := parseInt_showInt a
  rw [hs] at hp ⊢
  -- the last character is a digit
  have hlastd : ∀ l, (c :: cs).getLast? = some l → isDigit l = true := by
    intro l hl
    have hm : l ∈ c :: cs := List.mem_of_getLast? hl
    rcases List.mem_cons.mp hm with rfl | hm
    · rcases hne with h | h
      · exact h
      · -- cs ≠ [] so the last element is in cs
        cases cs with
        | nil => exact absurd rfl h
        | cons d ds =>
          have : (l :: d :: ds).getLast? = (d :: ds).getLast? := by simp [List.getLast?_cons_cons]
          rw [this] at hl
          exact hcs _ (List.mem_of_getLast? hl)
    · exact hcs l hm
  unfold parseIntervalAux
  simp only []
  have hlast : ((c :: cs).getLast? == some ']') = false := by
    cases hl : (c :: cs).getLast? with
    | none => simp
    | some l =>
      have := hlastd l hl
      have : l ≠ ']' := by intro e; subst e; simp [isDigit] at this
      simp [this]
  rw [hlast]
  simp only [Bool.false_eq_true, if_false, List.isEmpty_cons, Bool.and_false]
  have hnp : "-(".toList.isPrefixOf (c :: cs) = false := by
    have := not_prefix_of_shape c cs [] hcs hc hne (by simp)
    simpa using this
  simp only [hnp, Bool.false_eq_true, if_false]
  have hsl1 : slice (c :: cs) 1 (c :: cs).length = .ok cs := by unfold slice; simp
  rw [hsl1]
  simp only [indexOfDash_none cs hcs, hp]

theorem roundtrip (i : Ival) (hwf : WFIv i) : parseInterval true (showIval i) = .ok i := by
  unfold parseInterval
  generalize hf : (showIval i).length = fuel
  rcases i with ⟨s, e, cl⟩
  unfold WFIv at hwf
  simp only at hwf
  unfold showIval
  simp only
  have hgt : ¬ s > e := by omega
  simp only [hgt, if_false]
  by_cases heq : s = e
  · have hcl : cl = true := by rcases hwf with h | h; omega; exact h.2
    subst heq; subst hcl
    simp only [if_true]
    exact parse_single fuel s
  · have hlt : s < e := by omega
    simp only [heq, if_false]
    by_cases hneg : e < 0 ∧ s < 0
    · simp only [hneg, and_self, if_true]
      -- "-(" a "-" b ["]"] ")"
      obtain ⟨c1, cs1, hs1, hcs1, hc1⟩ := showNat_shape (-s).toNat
      obtain ⟨hd2, hne2⟩ := showNat_digits (-e).toNat
      generalize hinner : showNat (-s).toNat ++ '-' :: showNat (-e).toNat ++ (if cl = true then [']'] else []) = inner
      unfold parseIntervalAux
      simp only []
      have hlast : (('-' :: '(' :: inner ++ [')']).getLast? == some ']') = false := by
        rw [show '-' :: '(' :: inner ++ [')'] = ('-' :: '(' :: inner) ++ [')'] by simp, List.getLast?_concat]
        decide
      rw [hlast]
      simp only [Bool.false_eq_true, if_false]
      have hpre : "-(".toList.isPrefixOf ('-' :: '(' :: inner ++ [')']) = true := by
        simp [List.isPrefixOf]
      have hne' : ('-' :: '(' :: inner ++ [')']).isEmpty = false := by simp
      simp only [hne', Bool.and_false, Bool.false_eq_true, if_false, hpre, if_true]
      have hl2 : (('-' :: '(' :: inner ++ [')']).getLast? != some ')') = false := by
        rw [show '-' :: '(' :: inner ++ [')'] = ('-' :: '(' :: inner) ++ [')'] by simp, List.getLast?_concat]
        decide
      simp only [hl2, Bool.false_eq_true, if_false]
      have hsl : slice ('-' :: '(' :: inner ++ [')']) 2 (('-' :: '(' :: inner ++ [')']).length - 1) = .ok inner := by
        unfold slice
        have hle : 2 ≤ ('-' :: '(' :: inner ++ [')']).length - 1 ∧
            ('-' :: '(' :: inner ++ [')']).length - 1 ≤ ('-' :: '(' :: inner ++ [')']).length := by
          simp
        rw [if_pos hle]
        have e1 : ('-' :: '(' :: inner ++ [')']).length - 1 = ('-' :: '(' :: inner).length := by simp
        rw [e1, show '-' :: '(' :: inner ++ [')'] = ('-' :: '(' :: inner) ++ [')'] by simp, List.take_left]
        simp
      rw [hsl]
      simp only
      -- the inner call needs one unit of fuel
      have hfuel : ∃ f, fuel = f + 1 := by
        refine ⟨fuel - 1, ?_⟩
        have hpos : 0 < fuel := by
          rw [← hf]; unfold showIval
          simp only [hgt, heq, hneg, and_self, if_false, if_true]
          simp
        omega
      obtain ⟨f, hfe⟩ := hfuel
      rw [hfe, ← hinner, hs1]
      have hp1 : parseInt (c1 :: cs1) = some ((-s).toNat : Int) := by rw [← hs1]; exact parseInt_showNat _
      have hp2 := parseInt_showNat (-e).toNat
      have hab : ((-s).toNat : Int) ≠ ((-e).toNat : Int) := by omega
      rw [parse_pair f c1 cs1 (showNat (-e).toNat) _ _ cl hcs1 (Or.inr hc1) (Or.inl hc1) hp1 hd2 hne2 hp2 hab]
      simp only
      have e1 : -((-s).toNat : Int) = s := by omega
      have e2 : -((-e).toNat : Int) = e := by omega
      rw [e1, e2]
    · simp only [hneg, if_false]
      have he0 : 0 ≤ e := by omega
      obtain ⟨c1, cs1, hs1, hcs1, hc1, hne1⟩ := showInt_shape s
      have hse : showInt e = showNat e.toNat := by unfold showInt; simp; omega
      obtain ⟨hd2, hne2⟩ := showNat_digits e.toNat
      have hp1 : parseInt (c1 :: cs1) = some s := by rw [← hs1]; exact parseInt_showInt s
      have hp2 : parseInt (showNat e.toNat) = some e := by rw [← hse]; exact parseInt_showInt e
      rw [hs1, hse]
      exact parse_pair fuel c1 cs1 _ s e cl hcs1 hc1 hne1 hp1 hd2 hne2 hp2 heq

end Starcal

#print axioms Starcal.roundtrip
