/-! Starcal: arithmetic Hijri calendar (hijri.go with useMonthData = false); float expressions
    replaced by their exact integer values (see DESIGN §6.5). -/
namespace Starcal.Hijri

structure Date where
  year : Int
  month : Int
  day : Int
deriving DecidableEq, Repr

def Epoch : Int := 1948440

def isLeap (y : Int) : Bool := decide ((11 * y + 14) % 30 < 11)

/-- ceil(29.5 * (m-1)) -/
def monthOff (m : Int) : Int := (59 * (m - 1) + 1) / 2

def toJd (d : Date) : Int :=
  d.day + monthOff d.month + (d.year - 1) * 354 + (11 * d.year + 3) / 30 + Epoch

def jdTo (jd : Int) : Date :=
  let year := (30 * (jd - 1 - Epoch) + 10646) / 10631
  let ys := toJd ⟨year, 1, 1⟩
  -- min(12, ceil((jd + 0.5 - ys) / 29.5)) = min(12, ceil((2k+1)/59)) with k = jd - ys
  let mc := (2 * (jd - ys) + 1 + 58) / 59
  let month := if 12 < mc then 12 else mc
  let day := jd - toJd ⟨year, month, 1⟩ + 1
  ⟨year, month, day⟩

def monthLen (y m : Int) : Int :=
  if m % 2 = 1 then 30 else if m = 12 ∧ isLeap y then 30 else 29

def WF (d : Date) : Prop := 1 ≤ d.month ∧ d.month ≤ 12 ∧ 1 ≤ d.day ∧ d.day ≤ monthLen d.year d.month

def succ (d : Date) : Date :=
  if d.day < monthLen d.year d.month then ⟨d.year, d.month, d.day + 1⟩
  else if d.month < 12 then ⟨d.year, d.month + 1, 1⟩
  else ⟨d.year + 1, 1, 1⟩

def yearStart (y : Int) : Int := 1 + (y - 1) * 354 + (11 * y + 3) / 30 + Epoch

theorem yearStart_eq (y : Int) : toJd ⟨y, 1, 1⟩ = yearStart y := by
  simp [toJd, yearStart, monthOff] <;> omega

theorem year_len (y : Int) : yearStart (y + 1) - yearStart y = (if isLeap y then 355 else 354) := by
  unfold yearStart isLeap
  generalize hq : (11 * y + 3) / 30 = q
  generalize hr : (11 * y + 3) % 30 = r
  have h1 : 11 * y + 3 = 30 * q + r := by omega
  have h2 : 0 ≤ r ∧ r < 30 := by omega
  have e1 : (11 * (y + 1) + 3) / 30 = q + (r + 11) / 30 := by omega
  have e2 : (11 * y + 14) % 30 = (r + 11) % 30 := by omega
  rw [e1, e2]
  by_cases h : (r + 11) % 30 < 11 <;> simp [h] <;> omega

theorem month_cases {m : Int} (h1 : 1 ≤ m) (h2 : m ≤ 12) :
    m = 1 ∨ m = 2 ∨ m = 3 ∨ m = 4 ∨ m = 5 ∨ m = 6 ∨ m = 7 ∨ m = 8 ∨ m = 9 ∨ m = 10 ∨ m = 11 ∨ m = 12 := by
  omega

/-- month lengths are the gaps of monthOff (months 1..11) -/
theorem monthOff_step (y m : Int) (h1 : 1 ≤ m) (h2 : m ≤ 11) :
    monthOff (m + 1) = monthOff m + monthLen y m := by
  have : m = 1 ∨ m = 2 ∨ m = 3 ∨ m = 4 ∨ m = 5 ∨ m = 6 ∨ m = 7 ∨ m = 8 ∨ m = 9 ∨ m = 10 ∨ m = 11 := by omega
  rcases this with h|h|h|h|h|h|h|h|h|h|h <;> subst h <;> simp [monthOff, monthLen]

/-- the year of jdTo brackets jd -/
theorem year_bracket (jd : Int) :
    let y := (30 * (jd - 1 - Epoch) + 10646) / 10631
    yearStart y ≤ jd ∧ jd < yearStart (y + 1) := by
  simp only
  unfold yearStart
  generalize hy : (30 * (jd - 1 - Epoch) + 10646) / 10631 = y
  constructor <;> omega

/-- the month estimate inverts monthOff for day index k inside a year of length L ∈ {354, 355} -/
theorem month_of_k (k : Int) (h0 : 0 ≤ k) (h1 : k ≤ 354) :
    let mc := (2 * k + 1 + 58) / 59
    let m := if 12 < mc then 12 else mc
    1 ≤ m ∧ m ≤ 12 ∧ monthOff m ≤ k ∧ (m ≤ 11 → k < monthOff (m + 1)) := by
  simp only
  generalize hmc : (2 * k + 1 + 58) / 59 = mc
  have hr : 1 ≤ mc ∧ mc ≤ 13 := by omega
  have hcases : mc = 1 ∨ mc = 2 ∨ mc = 3 ∨ mc = 4 ∨ mc = 5 ∨ mc = 6 ∨ mc = 7 ∨ mc = 8 ∨ mc = 9 ∨
      mc = 10 ∨ mc = 11 ∨ mc = 12 ∨ mc = 13 := by omega
  rcases hcases with h|h|h|h|h|h|h|h|h|h|h|h|h <;> subst h <;> simp [monthOff] <;> omega

theorem jdTo_spec (jd : Int) : WF (jdTo jd) ∧ toJd (jdTo jd) = jd := by
  have hb := year_bracket jd
  simp only at hb
  unfold jdTo
  simp only
  generalize hy : (30 * (jd - 1 - Epoch) + 10646) / 10631 = y at *
  rw [yearStart_eq]
  have hlen := year_len y
  obtain ⟨k, hk⟩ : ∃ k : Int, k = jd - yearStart y := ⟨_, rfl⟩
  have hk0 : 0 ≤ k := by omega
  have hk1 : k ≤ 354 ∧ (k = 354 → isLeap y = true) := by
    by_cases hl : isLeap y = true
    · simp [hl] at hlen; exact ⟨by omega, fun _ => hl⟩
    · simp [hl] at hlen; exact ⟨by omega, fun h => by omega⟩
  have hm := month_of_k k hk0 hk1.1
  simp only at hm
  rw [← hk]
  generalize hmc : (2 * k + 1 + 58) / 59 = mc at *
  generalize hmm : (if 12 < mc then 12 else mc) = m at *
  obtain ⟨hm1, hm2, hlo, hhi⟩ := hm
  have htoJd : toJd ⟨y, m, 1⟩ = yearStart y + monthOff m := by
    simp [toJd, yearStart]; omega
  rw [htoJd]
  refine ⟨⟨hm1, hm2, by simp only; omega, ?_⟩, ?_⟩
  · simp only
    by_cases h11 : m ≤ 11
    · have := monthOff_step y m hm1 h11
      have := hhi h11
      omega
    · have hm12 : m = 12 := by omega
      subst hm12
      have hoff : monthOff 12 = 325 := by simp [monthOff]
      by_cases hl : isLeap y = true
      · simp [monthLen, hl]; omega
      · have : k ≠ 354 := fun h => hl (hk1.2 h)
        simp [monthLen, hl]; omega
  · simp only [toJd, yearStart] at hk ⊢
    omega


theorem toJd_eq (y m d : Int) : toJd ⟨y, m, d⟩ = yearStart y + monthOff m + d - 1 := by
  simp only [toJd, yearStart]; omega

theorem monthLen_range (y m : Int) : 29 ≤ monthLen y m ∧ monthLen y m ≤ 30 := by
  unfold monthLen; split <;> (try split) <;> omega

theorem jdTo_toJd (dt : Date) (hwf : WF dt) : jdTo (toJd dt) = dt := by
  rcases dt with ⟨y, m, d⟩
  obtain ⟨hm1, hm2, hd1, hd2⟩ := hwf
  simp only at hm1 hm2 hd1 hd2
  rw [toJd_eq]
  -- position inside the year
  obtain ⟨k, hk⟩ : ∃ k : Int, k = monthOff m + d - 1 := ⟨_, rfl⟩
  have hlen := year_len y
  have hkm : monthOff m ≤ k ∧ (m ≤ 11 → k < monthOff (m + 1)) ∧ 0 ≤ k ∧
      k < (if isLeap y then 355 else 354) := by
    have hoff0 : 0 ≤ monthOff m := by unfold monthOff; omega
    refine ⟨by omega, ?_, by omega, ?_⟩
    · intro h11; have := monthOff_step y m hm1 h11; omega
    · by_cases h11 : m ≤ 11
      · have := monthOff_step y m hm1 h11
        have hoff12 : monthOff (m + 1) ≤ 325 := by
          have : m + 1 ≤ 12 := by omega
          unfold monthOff; omega
        split <;> omega
      · have hm12 : m = 12 := by omega
        subst hm12
        have hoff : monthOff 12 = 325 := by simp [monthOff]
        by_cases hl : isLeap y = true
        · simp [monthLen, hl] at hd2 ⊢; omega
        · simp [monthLen, hl] at hd2 ⊢; omega
  obtain ⟨hlo, hhi, hk0, hkL⟩ := hkm
  have hjd : yearStart y + monthOff m + d - 1 = yearStart y + k := by omega
  rw [hjd]
  have hk354 : k ≤ 354 := by split at hkL <;> omega
  unfold jdTo
  simp only
  have hY : (30 * (yearStart y + k - 1 - Epoch) + 10646) / 10631 = y := by
    have hnext : yearStart y + k < yearStart (y + 1) := by split at hlen <;> split at hkL <;> simp_all <;> omega
    unfold yearStart at hnext ⊢
    omega
  rw [hY, yearStart_eq]
  have hkk : yearStart y + k - yearStart y = k := by omega
  rw [hkk]
  have hM : (if 12 < (2 * k + 1 + 58) / 59 then 12 else (2 * k + 1 + 58) / 59) = m := by
    rcases month_cases hm1 hm2 with h|h|h|h|h|h|h|h|h|h|h|h <;> subst h <;>
      simp [monthOff] at hlo hhi <;> split <;> omega
  rw [hM, toJd_eq]
  congr 1
  omega

theorem toJd_succ (dt : Date) (hwf : WF dt) : WF (succ dt) ∧ toJd (succ dt) = toJd dt + 1 := by
  rcases dt with ⟨y, m, d⟩
  obtain ⟨hm1, hm2, hd1, hd2⟩ := hwf
  simp only at hm1 hm2 hd1 hd2
  unfold succ
  simp only
  by_cases hlt : d < monthLen y m
  · simp only [hlt, if_true]
    exact ⟨⟨hm1, hm2, by simp only; omega, by simp only; omega⟩, by rw [toJd_eq, toJd_eq]; omega⟩
  · have hd : d = monthLen y m := by omega
    simp only [hlt, if_false]
    by_cases hm : m < 12
    · simp only [hm, if_true]
      have hr := monthLen_range y (m + 1)
      refine ⟨⟨by simp only; omega, by simp only; omega, by simp, by simp only; omega⟩, ?_⟩
      rw [toJd_eq, toJd_eq, monthOff_step y m hm1 (by omega)]; omega
    · have hm12 : m = 12 := by omega
      subst hm12
      simp only [hm, if_false]
      have hr := monthLen_range (y + 1) 1
      refine ⟨⟨by simp, by simp, by simp, by simp only; omega⟩, ?_⟩
      rw [toJd_eq, toJd_eq]
      have hlen := year_len y
      have h1 : monthOff 1 = 0 := by simp [monthOff]
      have h12 : monthOff 12 = 325 := by simp [monthOff]
      by_cases hl : isLeap y = true
      · simp [monthLen, hl] at hd; simp [hl] at hlen; omega
      · simp [monthLen, hl] at hd; simp [hl] at hlen; omega

theorem succ_step (jd : Int) : jdTo (jd + 1) = succ (jdTo jd) := by
  obtain ⟨hwf, hjd⟩ := jdTo_spec jd
  obtain ⟨hwf', hs⟩ := toJd_succ (jdTo jd) hwf
  have := jdTo_toJd (succ (jdTo jd)) hwf'
  rw [hs, hjd] at this
  exact this

/-- C03 anchor: 1 Muharram 1436 is day 2456957 -/
theorem anchor : jdTo 2456957 = ⟨1436, 1, 1⟩ := by decide

end Starcal.Hijri
