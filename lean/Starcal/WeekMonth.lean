import Starcal.Text
/-! The `weekMonth` rule value: `json.Unmarshal` into `struct{WeekIndex, WeekDay, Month int}` on the
    documented flat object only. `unmodelled` = outside the modelled fragment of JSON (escapes,
    nested values, non-integer numbers, `null`, keys that match only case-insensitively, numbers
    beyond 18 digits): there only totality is compared with the real code. -/
namespace Starcal.WM

inductive R where
  | ok (weekIndex weekDay month : Int)
  | err
  | unmodelled
deriving Repr, DecidableEq

def isWs (c : Char) : Bool := c == ' ' || c == '\t' || c == '\n' || c == '\r'

def skipWs : List Char → List Char
  | [] => []
  | c :: r => if isWs c then skipWs r else c :: r

/-- a JSON string without escapes: returns (content, rest after the closing quote) -/
def takeString : List Char → Option (List Char × List Char)
  | [] => none
  | c :: r =>
    if c == '"' then some ([], r)
    else if c == '\\' || c.toNat < 32 || c.toNat > 126 then none
    else (takeString r).map (fun p => (c :: p.1, p.2))

def takeDigits : List Char → List Char × List Char
  | [] => ([], [])
  | c :: r => if c.isDigit then let p := takeDigits r; (c :: p.1, p.2) else ([], c :: r)

/-- a JSON integer `-?(0|[1-9][0-9]*)` of at most 18 digits not followed by `.`, `e`, `E` -/
def takeInt (s : List Char) : Option (Int × List Char) :=
  let (neg, r) := match s with
    | '-' :: r => (true, r)
    | r => (false, r)
  let (ds, rest) := takeDigits r
  if ds.isEmpty || ds.length > 18 || (ds.length > 1 && ds.head? == some '0') then none
  else match rest with
    | '.' :: _ => none
    | 'e' :: _ => none
    | 'E' :: _ => none
    | _ => (parseNat ds).map (fun n => ((if neg then -(n : Int) else (n : Int)), rest))

def lower (s : List Char) : List Char := s.map Char.toLower

structure Acc where
  wi : Int := 0
  wd : Int := 0
  m : Int := 0

def keys : List (List Char) := ["weekIndex".toList, "weekDay".toList, "month".toList]

/-- members after `{`: `fuel` bounds the number of members by the input length -/
def members : Nat → Acc → List Char → R
  | 0, _, _ => .unmodelled
  | fuel + 1, acc, s =>
    match skipWs s with
    | '"' :: r =>
      match takeString r with
      | none => .unmodelled
      | some (k, r1) =>
        match skipWs r1 with
        | ':' :: r2 =>
          match takeInt (skipWs r2) with
          | none => .unmodelled
          | some (v, r3) =>
            if !(keys.contains k) && (keys.map lower).contains (lower k) then .unmodelled
            else
              let acc' : Acc :=
                if k == "weekIndex".toList then { acc with wi := v }
                else if k == "weekDay".toList then { acc with wd := v }
                else if k == "month".toList then { acc with m := v }
                else acc
              match skipWs r3 with
              | ',' :: r4 =>
                -- a comma must be followed by another member
                match skipWs r4 with
                | '"' :: _ => members fuel acc' r4
                | _ => .unmodelled
              -- the object is complete and valid: anything but white space after it is a syntax error of the whole text
              | '}' :: r4 => if (skipWs r4).isEmpty then .ok acc'.wi acc'.wd acc'.m else .err
              | _ => .unmodelled
        | _ => .unmodelled
    | _ => .unmodelled

def parse (s : List Char) : R :=
  match skipWs s with
  | '{' :: r =>
    match skipWs r with
    | '}' :: r2 => if (skipWs r2).isEmpty then .ok 0 0 0 else .err
    | _ => members (s.length + 1) {} r
  | 'n' :: _ => .unmodelled            -- `null` leaves the value untouched
  | _ => .err                          -- any other JSON value, or no JSON at all, is an error for a struct

/-- WeekMonth.IsValid -/
def isValid (wi wd m : Int) : Bool :=
  decide (m ≥ 0) && decide (m ≤ 12) && decide (wi ≥ 0) && decide (wi ≤ 4) && decide (wd ≥ 0) && decide (wd ≤ 6)

example : parse "{\"weekIndex\": 4, \"weekDay\": 6, \"month\": 12}".toList = .ok 4 6 12 := by decide
example : parse "\"weekIndex\": 0, \"weekDay\": 0, \"month\": 0".toList = .err := by decide
example : parse "{\"month\": 3}".toList = .ok 0 0 3 := by decide
example : parse "{\"month\": 3} }".toList = .err := by decide
example : parse "{\"month\": 3}]x".toList = .err := by decide

end Starcal.WM
