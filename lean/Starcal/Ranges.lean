import Starcal.Canon
/-! Starcal: C08 `int_range_list` clause — ParseClosedIntervalList → Normalize → Extract yields the
    strictly increasing list of exactly the integers covered by some written range. -/
namespace Starcal.Ival

def upFromI (a : Int) : Nat → List Int
  | 0 => []
  | n + 1 => a :: upFromI (a + 1) n

/-- IntervalList.Extract (interval.go:334-352) -/
def extractI : List Interval → List Int
  | [] => []
  | i :: l => upFromI i.start (i.stop - i.start).toNat ++ (if i.closed then [i.stop] else []) ++ extractI l

theorem mem_upFromI (a : Int) (n : Nat) (x : Int) : x ∈ upFromI a n ↔ a ≤ x ∧ x < a + n := by
  induction n generalizing a with
  | zero => simp [upFromI] <;> omega
  | succ n ih =>
    simp only [upFromI, List.mem_cons, ih]
    constructor
    · rintro (h | h) <;> (simp; omega)
    · intro h; simp at h; omega

/-- membership in the extraction of closed intervals -/
theorem mem_extractI (l : List Interval) (hcl : ∀ i ∈ l, i.closed = true ∧ i.start ≤ i.stop) (x : Int) :
    x ∈ extractI l ↔ ∃ i ∈ l, i.start ≤ x ∧ x ≤ i.stop := by
  induction l with
  | nil => simp [extractI]
  | cons i l ih =>
    have hi := hcl i (by simp)
    have ih' := ih (fun j hj => hcl j (List.mem_cons_of_mem _ hj))
    simp only [extractI, hi.1, if_true, List.mem_append, mem_upFromI, List.mem_singleton, ih']
    constructor
    · rintro ((h | h) | ⟨j, hj, h⟩)
      · exact ⟨i, by simp, by omega, by omega⟩
      · exact ⟨i, by simp, by omega, by omega⟩
      · exact ⟨j, List.mem_cons_of_mem _ hj, h⟩
    · rintro ⟨j, hj, h1, h2⟩
      rcases List.mem_cons.mp hj with rfl | hj
      · by_cases he : x = j.stop
        · exact Or.inl (Or.inr he)
        · exact Or.inl (Or.inl (by omega))
      · exact Or.inr ⟨j, hj, h1, h2⟩

/-- an integer lies in a closed interval iff its lattice point does -/
theorem memH_int (x : Int) (i : Interval) (hc : i.closed = true) :
    memH (2 * x) i ↔ i.start ≤ x ∧ x ≤ i.stop := by
  unfold memH; rw [hc]; simp; omega

def StrictInc : List Int → Prop
  | [] => True
  | [_] => True
  | a :: b :: rest => a < b ∧ StrictInc (b :: rest)

theorem strictInc_upFromI (a : Int) (n : Nat) : StrictInc (upFromI a n) := by
  induction n generalizing a with
  | zero => simp [upFromI, StrictInc]
  | succ n ih =>
    cases n with
    | zero => simp [upFromI, StrictInc]
    | succ n =>
      have := ih (a + 1)
      simp only [upFromI] at this ⊢
      exact ⟨by omega, this⟩

theorem strictInc_append (a b : List Int) (ha : StrictInc a) (hb : StrictInc b)
    (hab : ∀ x ∈ a, ∀ y ∈ b, x < y) : StrictInc (a ++ b) := by
  induction a with
  | nil => simpa using hb
  | cons x xs ih =>
    cases xs with
    | nil =>
      cases b with
      | nil => simp [StrictInc]
      | cons y ys => exact ⟨hab x (by simp) y (by simp), hb⟩
    | cons x2 xs2 =>
      simp only [List.cons_append]
      refine ⟨ha.1, ?_⟩
      have := ih ha.2 (fun u hu v hv => hab u (List.mem_cons_of_mem _ hu) v hv)
      simpa using this

/-- the extraction of a separated list of closed intervals is strictly increasing -/
theorem strictInc_extractI (l : List Interval) (hs : Sep l) (hcl : ∀ i ∈ l, i.closed = true ∧ i.start ≤ i.stop) :
    StrictInc (extractI l) := by
  induction l with
  | nil => simp [extractI, StrictInc]
  | cons i l ih =>
    unfold Sep at hs; rw [List.pairwise_cons] at hs
    have hi := hcl i (by simp)
    have hcl' : ∀ j ∈ l, j.closed = true ∧ j.start ≤ j.stop := fun j hj => hcl j (List.mem_cons_of_mem _ hj)
    simp only [extractI, hi.1, if_true]
    apply strictInc_append
    · apply strictInc_append _ _ (strictInc_upFromI _ _) (by simp [StrictInc])
      intro x hx y hy
      rw [mem_upFromI] at hx; simp at hy; omega
    · exact ih hs.2 hcl'
    · intro x hx y hy
      rw [mem_extractI l hcl'] at hy
      obtain ⟨j, hj, h1, _⟩ := hy
      have := hs.1 j hj
      rcases List.mem_append.mp hx with hx | hx
      · rw [mem_upFromI] at hx; omega
      · simp at hx; omega


theorem closed_pointsOf {lid : Nat} {l : List Interval} (hcl : ∀ i ∈ l, i.closed = true) {p : Point}
    (hp : p ∈ pointsOf lid l) : p.closed = true := by
  induction l with
  | nil => simp [pointsOf] at hp
  | cons i l ih =>
    simp only [pointsOf, List.mem_cons] at hp
    rcases hp with rfl | rfl | hp
    · rfl
    · exact hcl i (by simp)
    · exact ih (fun j hj => hcl j (List.mem_cons_of_mem _ hj)) hp

/-- Normalize of closed intervals returns closed intervals -/
theorem norm_closed (l r : List Interval) (hcl : ∀ i ∈ l, i.closed = true) (hr : normalize l = some r) :
    ∀ k ∈ r, k.closed = true := by
  unfold normalize at hr
  cases hF : sweep (sortPts (pointsOf 0 l)) ([], []) with
  | none => simp [hF] at hr
  | some stF =>
    simp [hF] at hr; subst hr
    obtain ⟨E, hE, hiE, _⟩ := run_out _ _ _ hF
    simp at hE
    intro k hk
    have hk' : k ∈ E := by rw [← hE]; simpa using hk
    obtain ⟨⟨p, hp, _, _, hpc⟩, _⟩ := hiE k hk'
    rw [hpc]
    exact closed_pointsOf hcl ((mem_sortPts p _).mp hp)

/-- **C08, range lists**: the decoded value is the strictly increasing list of exactly the integers
    covered by some written range -/
theorem ranges_value (l : List Interval) (hcl : ∀ i ∈ l, i.closed = true ∧ i.start ≤ i.stop) :
    ∃ r, normalize l = some r ∧ StrictInc (extractI r) ∧
      ∀ x, x ∈ extractI r ↔ ∃ i ∈ l, i.start ≤ x ∧ x ≤ i.stop := by
  have hord : ∀ i ∈ l, i.start ≤ i.stop := fun i hi => (hcl i hi).2
  obtain ⟨r, hr⟩ := norm_ok l hord
  have hrc := norm_closed l r (fun i hi => (hcl i hi).1) hr
  obtain ⟨hsep, hle⟩ := norm_sep l r hr
  have hcl' : ∀ k ∈ r, k.closed = true ∧ k.start ≤ k.stop := fun k hk => ⟨hrc k hk, hle k hk⟩
  refine ⟨r, hr, strictInc_extractI r hsep hcl', ?_⟩
  intro x
  rw [mem_extractI r hcl']
  have hm := norm_mem l hord r hr (2 * x)
  unfold memL at hm
  constructor
  · rintro ⟨k, hk, h1, h2⟩
    obtain ⟨i, hi, him⟩ := hm.mp ⟨k, hk, (memH_int x k (hrc k hk)).mpr ⟨h1, h2⟩⟩
    exact ⟨i, hi, (memH_int x i (hcl i hi).1).mp him⟩
  · rintro ⟨i, hi, h1, h2⟩
    obtain ⟨k, hk, hkm⟩ := hm.mpr ⟨i, hi, (memH_int x i (hcl i hi).1).mpr ⟨h1, h2⟩⟩
    exact ⟨k, hk, (memH_int x k (hrc k hk)).mp hkm⟩

end Starcal.Ival

#print axioms Starcal.Ival.ranges_value
