import Starcal.Inter
/-! Starcal: the intersection sweep never takes an "internal error" branch on canonical operands. -/
namespace Starcal.Ival

theorem foldl_ev (k : Nat) (A : List Point) (acc : Option Int) (v : Int)
    (h : A.foldl (evOf k) acc = some v) :
    acc = some v ∨ ∃ q ∈ A, q.lid = k ∧ q.isEnd = false ∧ q.pos = v := by
  induction A generalizing acc with
  | nil => left; simpa using h
  | cons a A ih =>
    simp only [List.foldl_cons] at h
    rcases ih _ h with h1 | ⟨q, hq, h2⟩
    · unfold evOf at h1
      by_cases hk : a.lid = k
      · simp only [hk, if_true] at h1
        cases hae : a.isEnd with
        | true => simp [hae] at h1
        | false =>
          simp [hae] at h1
          exact Or.inr ⟨a, by simp, hk, hae, h1⟩
      · simp only [hk, if_false] at h1
        exact Or.inl h1
    · exact Or.inr ⟨q, List.mem_cons_of_mem _ hq, h2⟩

/-- a slot value is the position of a start point of that list seen so far -/
theorem lastOpen_some {k : Nat} {A : List Point} {v : Int} (h : lastOpen k A = some v) :
    ∃ q ∈ A, q.lid = k ∧ q.isEnd = false ∧ q.pos = v := by
  rcases foldl_ev k A none v h with h1 | h1
  · simp at h1
  · exact h1

theorem allOpen_attained {os : List (Option Int)} {s : Int} (h : allOpen os = some s) :
    ∃ k, k < os.length ∧ os[k]? = some (some s) := by
  induction os generalizing s with
  | nil => simp [allOpen] at h
  | cons o os ih =>
    cases os with
    | nil => simp [allOpen] at h; subst h; exact ⟨0, by simp, by simp⟩
    | cons o' os' =>
      unfold allOpen at h
      cases o with
      | none => simp at h
      | some a =>
        cases hb : allOpen (o' :: os') with
        | none => simp [hb] at h
        | some b =>
          simp [hb] at h
          by_cases hab : a ≤ b
          · obtain ⟨k, hk, hk'⟩ := ih hb
            have : s = b := by omega
            subst this
            exact ⟨k + 1, by simp at hk ⊢; omega, by simpa using hk'⟩
          · have : s = a := by omega
            subst this
            exact ⟨0, by simp, by simp⟩

/-- the list-k events of the merged sorted list are exactly `pointsOf k Nₖ` -/
theorem filter_sorted_eq (ns : List (List Interval)) (hc : CanonAll ns) (k : Nat) (hk : k < ns.length) :
    (sortPts (allPoints 0 ns)).filter (fun p => p.lid == k) = pointsOf k ns[k] := by
  have hcan := hc ns[k] (List.getElem_mem hk)
  have hord : ∀ i ∈ ns[k], i.start ≤ i.stop := fun i hi => by
    have := hcan.2 i hi; unfold WFI at this; omega
  have hsortedP : Sorted ((sortPts (allPoints 0 ns)).filter (fun p => p.lid == k)) :=
    List.Pairwise.filter _ (sorted_sortPts _)
  have hperm : ((sortPts (allPoints 0 ns)).filter (fun p => p.lid == k)).Perm (pointsOf k ns[k]) := by
    have h1 := (sortPts_perm (allPoints 0 ns)).filter (fun p => p.lid == k)
    have h2 := filter_allPoints 0 ns k hk
    simp only [Nat.zero_add] at h2
    rw [h2] at h1; exact h1
  exact sorted_perm_eq _ _ hsortedP (sorted_pointsOf k ns[k] hcan.1 hord) hperm

/-- in `pointsOf k N` the events alternate start, end, start, …: before a start point the last
    event is an end point (or nothing) -/
theorem slot_closed_before_start (k : Nat) (N : List Interval) (X Y : List Point) (p : Point)
    (h : pointsOf k N = X ++ p :: Y) (hp : p.isEnd = false) : lastOpen k X = none := by
  induction N generalizing X with
  | nil => simp [pointsOf] at h
  | cons I N ih =>
    simp only [pointsOf] at h
    cases X with
    | nil => simp [lastOpen]
    | cons a X1 =>
      simp at h
      obtain ⟨rfl, h⟩ := h
      cases X1 with
      | nil =>
        simp at h
        obtain ⟨rfl, _⟩ := h
        simp [endPt] at hp
      | cons a2 X2 =>
        simp at h
        obtain ⟨rfl, h⟩ := h
        have e : lastOpen k (startPt I k :: endPt I k :: X2) = lastOpen k X2 := by
          simp [lastOpen, evOf, startPt, endPt]
        rw [e]
        exact ih X2 h

theorem lid_allPoints {k0 : Nat} {ns : List (List Interval)} {p : Point} (hp : p ∈ allPoints k0 ns) :
    k0 ≤ p.lid ∧ p.lid < k0 + ns.length := by
  induction ns generalizing k0 with
  | nil => simp [allPoints] at hp
  | cons l ls ih =>
    simp only [allPoints, List.mem_append] at hp
    rcases hp with hp | hp
    · rw [lid_pointsOf hp]; simp
    · have := ih hp; simp; omega

/-- **inter_ok**: on canonical operands the sweep reaches the end without an error -/
theorem inter_ok_core (ns : List (List Interval)) (hc : CanonAll ns) :
    ∃ stF, interSweep (sortPts (allPoints 0 ns)) ⟨List.replicate ns.length none, []⟩ = some stF := by
  have hsP := sorted_sortPts (allPoints 0 ns)
  have main : ∀ (Q Pre : List Point) (st : ISt), Pre ++ Q = sortPts (allPoints 0 ns) →
      Tracks ns.length Pre st → ∃ st', interSweep Q st = some st' := by
    intro Q
    induction Q with
    | nil => intro Pre st _ _; exact ⟨st, by simp [interSweep]⟩
    | cons p Q ih =>
      intro Pre st hPQ ht
      rw [interSweep_cons]
      have hpm : p ∈ sortPts (allPoints 0 ns) := by rw [← hPQ]; simp
      have hlid := lid_allPoints ((mem_sortPts p _).mp hpm)
      have hlt : p.lid < ns.length := by omega
      -- every processed point is ≤ p
      have hle : ∀ q ∈ Pre, q.pos ≤ p.pos := by
        intro q hq
        rw [← hPQ] at hsP
        have := (List.pairwise_append.mp hsP).2.2 q hq p (by simp)
        exact pos_le_of_le this
      have hstep : ∃ st1, interStep st p = some st1 := by
        unfold interStep
        cases hpe : p.isEnd with
        | false =>
          simp only [if_true]
          -- the slot of p's list is closed
          have hf := filter_sorted_eq ns hc p.lid hlt
          rw [← hPQ, List.filter_append, List.filter_cons] at hf
          simp only [beq_self_eq_true, if_true] at hf
          have := slot_closed_before_start p.lid ns[p.lid] _ _ p hf.symm hpe
          rw [← lastOpen_filter] at this
          rw [ht.2 p.lid hlt, this]
          exact ⟨_, rfl⟩
        | true =>
          simp only [Bool.true_eq_false, if_false]
          cases ha : allOpen st.opens with
          | none => exact ⟨_, rfl⟩
          | some s =>
            simp only
            obtain ⟨k, hk, hks⟩ := allOpen_attained ha
            rw [ht.1] at hk
            rw [ht.2 k hk] at hks
            simp at hks
            obtain ⟨q, hq, _, _, hqp⟩ := lastOpen_some hks
            have := hle q hq
            have hns : ¬ s > p.pos := by omega
            simp only [hns, if_false]
            exact ⟨_, rfl⟩
      obtain ⟨st1, hs1⟩ := hstep
      rw [hs1]
      exact ih (Pre ++ [p]) st1 (by simp [hPQ]) (step_tracks ht hs1)
  exact main _ [] _ (by simp) ⟨by simp, fun k hk => by simp [lastOpen, hk]⟩


/-! ### the result is canonical -/

def emitList (n : Nat) : List Point → List Point → List Interval
  | _, [] => []
  | Pre, p :: Q => emitAt n Pre p ++ emitList n (Pre ++ [p]) Q

theorem emitAt_length (n : Nat) (Pre : List Point) (p : Point) : (emitAt n Pre p).length ≤ 1 := by
  unfold emitAt; split <;> (try split) <;> (try split) <;> simp

theorem sweep_out_list {n : Nat} (Q : List Point) (Pre : List Point) (st st' : ISt)
    (ht : Tracks n Pre st) (h : interSweep Q st = some st') :
    st'.out = (emitList n Pre Q).reverse ++ st.out := by
  induction Q generalizing Pre st with
  | nil => simp [interSweep] at h; subst h; simp [emitList]
  | cons p ps ih =>
    rw [interSweep_cons] at h
    cases hs : interStep st p with
    | none => simp [hs] at h
    | some st1 =>
      simp [hs] at h
      rw [ih (Pre ++ [p]) st1 (step_tracks ht hs) h, step_out ht hs]
      simp only [emitList, List.reverse_append, List.append_assoc]
      congr 1
      -- a list of length ≤ 1 is its own reverse
      have hl := emitAt_length n Pre p
      match hE : emitAt n Pre p with
      | [] => simp
      | [x] => simp
      | _ :: _ :: _ => rw [hE] at hl; simp at hl

theorem emitAt_mem {n : Nat} {Pre : List Point} {p : Point} {i : Interval} (h : i ∈ emitAt n Pre p) :
    p.isEnd = true ∧ allOpen (slots n Pre) = some i.start ∧ i.stop = p.pos ∧ i.closed = p.closed ∧
      (p.pos > i.start ∨ p.closed = true) := by
  unfold emitAt at h
  split at h
  · rename_i hpe
    split at h
    · rename_i s hs
      split at h
      · rename_i hc
        simp at h; subst h
        exact ⟨hpe, hs, rfl, rfl, hc⟩
      · simp at h
    · simp at h
  · simp at h

theorem canonical_emitList (ns : List (List Interval)) (Q Pre : List Point)
    (hPQ : Pre ++ Q = sortPts (allPoints 0 ns)) :
    Canonical (emitList ns.length Pre Q) := by
  have hsP := sorted_sortPts (allPoints 0 ns)
  induction Q generalizing Pre with
  | nil => simp [emitList, Canonical, Sep]
  | cons p Q ih =>
    have ihc := ih (Pre ++ [p]) (by simp [hPQ])
    have hpm : p ∈ sortPts (allPoints 0 ns) := by rw [← hPQ]; simp
    have hlid := lid_allPoints ((mem_sortPts p _).mp hpm)
    have hlt : p.lid < ns.length := by omega
    rw [← hPQ] at hsP
    have hle : ∀ q ∈ Pre, q.pos ≤ p.pos := fun q hq =>
      pos_le_of_le ((List.pairwise_append.mp hsP).2.2 q hq p (by simp))
    have hpQ : ∀ q ∈ Q, Point.le p q = true := by
      have := (List.pairwise_append.mp hsP).2.1
      rw [List.pairwise_cons] at this
      exact this.1
    simp only [emitList]
    constructor
    · -- separation
      unfold Sep
      rw [List.pairwise_append]
      refine ⟨?_, ihc.1, ?_⟩
      · have hl := emitAt_length ns.length Pre p
        match hE : emitAt ns.length Pre p with
        | [] => simp
        | [x] => simp
        | _ :: _ :: _ => rw [hE] at hl; simp at hl
      · intro a ha b hb
        obtain ⟨hpe, _, hastop, _, _⟩ := emitAt_mem ha
        -- b was emitted at a later end point p2, with Q = B ++ p2 :: C
        have hbsplit : ∀ (Q' Pre' : List Point), b ∈ emitList ns.length Pre' Q' →
            ∃ B p2 C, Q' = B ++ p2 :: C ∧ b ∈ emitAt ns.length (Pre' ++ B) p2 := by
          intro Q'
          induction Q' with
          | nil => intro Pre' h; simp [emitList] at h
          | cons x xs ihx =>
            intro Pre' h
            simp only [emitList, List.mem_append] at h
            rcases h with h | h
            · exact ⟨[], x, xs, rfl, by simpa using h⟩
            · obtain ⟨B, p2, C, e, hm⟩ := ihx (Pre' ++ [x]) h
              exact ⟨x :: B, p2, C, by simp [e], by simpa using hm⟩
        obtain ⟨B, p2, C, hQ, hbm⟩ := hbsplit Q (Pre ++ [p]) hb
        obtain ⟨_, hbs, _, _, _⟩ := emitAt_mem hbm
        -- the slot of p's list is open again at p2, opened by a start point q ∈ B
        obtain ⟨v, hv1, hv2⟩ := allOpen_some hbs p.lid (by simp [slots]; exact hlt)
        have hv1' : lastOpen p.lid (Pre ++ [p] ++ B) = some v := by
          simp [slots, hlt] at hv1; simpa using hv1
        have hreset : lastOpen p.lid (Pre ++ [p]) = none := by
          rw [lastOpen_append_singleton]; simp [evOf, hpe]
        unfold lastOpen at hv1' hreset
        rw [List.foldl_append, hreset] at hv1'
        rcases foldl_ev p.lid B none v hv1' with h0 | ⟨q, hq, _, hqs, hqp⟩
        · simp at h0
        · have hqQ : q ∈ Q := by rw [hQ]; simp [hq]
          have := end_lt_start_of_le hpe hqs (hpQ q hqQ)
          omega
    · -- non-emptiness
      intro i hi
      rcases List.mem_append.mp hi with hi | hi
      · obtain ⟨hpe, hs, hstop, hcl, hcond⟩ := emitAt_mem hi
        obtain ⟨k, hk, hks⟩ := allOpen_attained hs
        have hk' : k < ns.length := by simpa [slots] using hk
        simp [slots, hk'] at hks
        obtain ⟨q, hq, _, _, hqp⟩ := lastOpen_some hks
        have := hle q hq
        unfold WFI
        rw [hstop, hcl]
        rcases hcond with h | h
        · exact Or.inl (by omega)
        · by_cases hlt' : i.start < p.pos
          · exact Or.inl hlt'
          · exact Or.inr ⟨by omega, h⟩
      · exact ihc.2 i hi

/-- **inter_canonical** -/
theorem inter_canonical_core (ns : List (List Interval)) (stF : ISt)
    (hF : interSweep (sortPts (allPoints 0 ns)) ⟨List.replicate ns.length none, []⟩ = some stF) :
    Canonical stF.out.reverse := by
  have ht0 : Tracks ns.length [] ⟨List.replicate ns.length none, []⟩ :=
    ⟨by simp, fun k hk => by simp [lastOpen, hk]⟩
  have := sweep_out_list _ [] _ stF ht0 hF
  rw [this]
  simp only [List.append_nil, List.reverse_reverse]
  exact canonical_emitList ns _ [] (by simp)

end Starcal.Ival

namespace Starcal.Ival

/-- every operand is replaced by its canonical form with the same denotation -/
theorem normAll_spec (ls : List (List Interval)) (hwf : ∀ l ∈ ls, ∀ i ∈ l, WFI i) :
    ∃ ns, normAll ls = some ns ∧ ns.length = ls.length ∧ CanonAll ns ∧
      ∀ k (hk : k < ls.length) (hk' : k < ns.length) h, memL h ns[k] ↔ memL h ls[k] := by
  induction ls with
  | nil => exact ⟨[], rfl, rfl, by simp [CanonAll], by intro k hk; simp at hk⟩
  | cons l ls ih =>
    have hl : ∀ i ∈ l, WFI i := hwf l (by simp)
    have hlo : ∀ i ∈ l, i.start ≤ i.stop := fun i hi => by have := hl i hi; unfold WFI at this; omega
    obtain ⟨r, hr⟩ := norm_ok l hlo
    obtain ⟨ns, hns, hlen, hcan, hmem⟩ := ih (fun l' hl' => hwf l' (List.mem_cons_of_mem _ hl'))
    refine ⟨r :: ns, by simp [normAll, hr, hns], by simp [hlen], ?_, ?_⟩
    · intro N hN
      rcases List.mem_cons.mp hN with rfl | hN
      · exact norm_canonical l hl _ hr
      · exact hcan N hN
    · intro k hk hk' h
      cases k with
      | zero => simpa using norm_mem l hlo r hr h
      | succ k =>
        simp only [List.getElem_cons_succ]
        exact hmem k (by simp at hk; omega) (by simp at hk'; omega) h

/-- **C04**: for any non-empty tuple of well-formed operands the k-ary sweep succeeds, its result is
    canonical, and it denotes exactly the intersection of the operands -/
theorem inter_main (ls : List (List Interval)) (hne : ls ≠ []) (hwf : ∀ l ∈ ls, ∀ i ∈ l, WFI i) :
    ∃ r, intersectMany ls = some r ∧ Canonical r ∧ ∀ h, memL h r ↔ ∀ l ∈ ls, memL h l := by
  obtain ⟨ns, hns, hlen, hcan, hmem⟩ := normAll_spec ls hwf
  obtain ⟨stF, hF⟩ := inter_ok_core ns hcan
  have hne' : ns ≠ [] := by
    intro h; rw [h] at hlen; simp at hlen
    exact hne (List.eq_nil_of_length_eq_zero hlen.symm)
  refine ⟨stF.out.reverse, by simp [intersectMany, hns, hF], inter_canonical_core ns stF hF, ?_⟩
  intro h
  rw [inter_mem_core ns hne' hcan stF hF h]
  constructor
  · intro hall l hl
    obtain ⟨k, hk, rfl⟩ := List.getElem_of_mem hl
    exact (hmem k hk (by omega) h).mp (hall k (by omega))
  · intro hall k hk
    have hk' : k < ls.length := by omega
    exact (hmem k hk' hk h).mpr (hall _ (List.getElem_mem hk'))

/-- operand order does not matter (and likewise grouping, inner order, duplicates):
    two calls whose operands denote the same family of sets return the same list -/
theorem inter_depends_on_sets (ls1 ls2 : List (List Interval)) (h1 : ls1 ≠ []) (h2 : ls2 ≠ [])
    (w1 : ∀ l ∈ ls1, ∀ i ∈ l, WFI i) (w2 : ∀ l ∈ ls2, ∀ i ∈ l, WFI i)
    (heq : ∀ h, (∀ l ∈ ls1, memL h l) ↔ (∀ l ∈ ls2, memL h l))
    (r1 r2 : List Interval) (e1 : intersectMany ls1 = some r1) (e2 : intersectMany ls2 = some r2) :
    r1 = r2 := by
  obtain ⟨r1', e1', c1, m1⟩ := inter_main ls1 h1 w1
  obtain ⟨r2', e2', c2, m2⟩ := inter_main ls2 h2 w2
  rw [e1] at e1'; rw [e2] at e2'
  simp at e1' e2'; subst e1' e2'
  exact canonical_unique _ _ c1 c2 (fun h => by rw [m1, m2]; exact heq h)

end Starcal.Ival

#print axioms Starcal.Ival.inter_main
#print axioms Starcal.Ival.inter_depends_on_sets
