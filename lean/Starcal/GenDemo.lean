import Starcal.Race
/-! Starcal: the "regenerated facts + decide" shape. The data below is what the extractor prototypes
    printed for the unchanged tree (lock sequences) and for the repaired tree; rule tables copied
    from event/rules_lib/dependencies.go. -/
namespace Starcal.GenDemo
open Starcal.Lock

/-- operand roles -/
inductive Role | recv | arg deriving DecidableEq, Repr

inductive Ev
  | rlock (r : Role) | runlock (r : Role) | lock (r : Role) | unlock (r : Role)
  | acc (r : Role) (w : Bool)
deriving DecidableEq, Repr

/-- expansion to model actions for a concrete assignment of lock ids to the roles -/
def expand (idRecv idArg : Nat) : List Ev → List Act
  | [] => []
  | e :: es =>
    let id := fun r => match r with | Role.recv => idRecv | Role.arg => idArg
    (match e with
      | .rlock r => Act.rlock (id r)
      | .runlock r => Act.runlock (id r)
      | .lock r => Act.wlock (id r)
      | .unlock r => Act.unlock (id r)
      | .acc r w => Act.access (id r) w) :: expand idRecv idArg es

open Role Ev in
/-- as extracted from the unchanged threadsafe.go (nested calls inlined) -/
def seqsNow : List (String × List Ev) := [
  ("Add", [lock recv, acc recv true, unlock recv]),
  ("Contains", [rlock recv, acc recv false, runlock recv]),
  ("Union", [rlock recv, rlock arg, acc recv false, acc arg false, runlock recv, runlock arg]),
  ("IsSuperset", [rlock arg, rlock recv, acc arg false, acc recv false, runlock arg, runlock recv]),
  ("SymmetricDifference", [acc recv false, acc arg false]),
  ("Cardinality", [rlock recv, acc recv false, runlock recv]),
  ("ToSlice", [rlock recv, rlock recv, acc recv false, runlock recv, acc recv false, runlock recv]),
  ("Clear", [lock recv, acc recv true, unlock recv])]

/-- the discipline for the three operand assignments: (A,B) = (0,1), (B,A) = (1,0), (A,A) = (0,0) -/
def okAll (es : List Ev) : Bool :=
  disc [] (expand 0 1 es) && disc [] (expand 1 0 es) && disc [] (expand 0 0 es)

-- obligations on the unchanged tree: which operations fail, and for which assignment
example : (seqsNow.filter (fun p => !okAll p.2)).map (·.1) =
    ["Union", "IsSuperset", "SymmetricDifference", "ToSlice"] := by decide
example : disc [] (expand 0 1 [Ev.rlock .recv, .rlock .arg, .acc .recv false, .acc .arg false,
    .runlock .recv, .runlock .arg]) = true := by decide          -- Union(A,B) alone is fine
example : disc [] (expand 1 0 [Ev.rlock .recv, .rlock .arg, .acc .recv false, .acc .arg false,
    .runlock .recv, .runlock .arg]) = false := by decide         -- Union(B,A): wrong order
example : disc [] (expand 0 0 [Ev.rlock .recv, .rlock .arg, .acc .recv false, .acc .arg false,
    .runlock .recv, .runlock .arg]) = false := by decide         -- Union(A,A): re-entrant

/-! after the planned repairs the binary operations lock through `rlockBoth`, whose recorded
    expansions are: (A,B) and (B,A): rlock 0, rlock 1 … ; (A,A): rlock 0 … -/
def unionFixed (assign : Nat) : List Act :=
  match assign with
  | 2 => [.rlock 0, .access 0 false, .access 0 false, .runlock 0]                                  -- (A,A)
  | _ => [.rlock 0, .rlock 1, .access 0 false, .access 1 false, .runlock 0, .runlock 1]            -- (A,B), (B,A)

example : ∀ a ∈ [0, 1, 2], disc [] (unionFixed a) = true := by decide
example : disc [] [.rlock 0, .access 0 false, .runlock 0] = true := by decide                      -- ToSlice repaired

/-- a concrete three-thread program built from repaired operations is `Initial`, hence by
    `reach_no_race` / `reach_deadlock_free` race-free and deadlock-free in every reachable state -/
def demo : List Thread :=
  [⟨[], false, unionFixed 0 ++ [.wlock 0, .access 0 true, .unlock 0]⟩,
   ⟨[], false, unionFixed 1 ++ unionFixed 2⟩,
   ⟨[], false, [.wlock 1, .access 1 true, .unlock 1]⟩]

theorem demo_initial : Initial demo := by
  intro th hm
  simp [demo] at hm
  rcases hm with rfl | rfl | rfl <;> exact ⟨rfl, rfl, by decide⟩

theorem demo_safe {s} (hr : Reach demo s) : ¬ RaceNow s ∧ ((∃ th ∈ s, th.prog ≠ []) → ∃ s', Step s s') :=
  ⟨reach_no_race demo_initial hr, reach_deadlock_free demo_initial hr⟩

/-! ### rule dependency tables (C09 table clause) -/

def rulesRequire : List (String × List String) := [
  ("duration", ["start"]), ("cycleLen", ["start"]), ("cycleDays", ["start"]),
  ("cycleWeeks", ["start"]), ("weekNumMode", ["start"])]

def rulesConflict : List (String × List String) := [
  ("duration", ["end"]), ("date", ["start", "end", "duration"]), ("dayTimeRange", ["dayTime"]),
  ("cycleLen", ["date", "dayTime", "dayTimeRange"]), ("cycleDays", ["date", "cycleLen"]),
  ("cycleWeeks", ["date", "cycleLen", "cycleDays"]), ("weekDay", ["date"]), ("year", ["date"]),
  ("ex_year", ["date"]), ("month", ["date"]), ("ex_month", ["date", "month"]), ("day", ["date"]),
  ("ex_day", ["date"]), ("weekNumMode", ["date"]),
  ("weekMonth", ["date", "cycleLen", "cycleDays", "cycleWeeks", "weekDay", "month", "ex_month", "weekNumMode"])]

def registered : List (String × Nat) := [
  ("start", 0), ("end", 1), ("duration", 2), ("date", 3), ("ex_dates", 4), ("dayTime", 5),
  ("dayTimeRange", 6), ("cycleLen", 7), ("cycleDays", 8), ("cycleWeeks", 9), ("weekDay", 10),
  ("year", 11), ("ex_year", 12), ("month", 13), ("ex_month", 14), ("day", 15), ("ex_day", 16),
  ("weekNumMode", 17), ("weekMonth", 18)]

def names : List String := registered.map (·.1)
def lookup (t : List (String × List String)) (k : String) : List String := (t.lookup k).getD []

/-- a rule set satisfies both tables -/
def satisfies (S : List String) : Bool :=
  S.all (fun t => (lookup rulesRequire t).all (S.contains ·) &&
                  (lookup rulesConflict t).all (fun c => !S.contains c))

theorem tables_closed : (rulesRequire ++ rulesConflict).all
    (fun p => names.contains p.1 && p.2.all (names.contains ·)) = true := by decide
theorem no_self_conflict : rulesConflict.all (fun p => !p.2.contains p.1) = true := by decide
theorem no_conflict_with_required :
    rulesConflict.all (fun p => p.2.all (fun c => !(lookup rulesRequire p.1).contains c)) = true := by decide
theorem orders_distinct : (registered.map (·.2)).Nodup := by decide
theorem names_distinct : names.Nodup := by decide
/-- every type can appear in a satisfying rule set: itself plus what it requires (witness, no enumeration
    of the 2¹⁹ subsets) -/
theorem each_type_usable : names.all (fun t => satisfies (t :: lookup rulesRequire t)) = true := by decide

end Starcal.GenDemo

#print axioms Starcal.GenDemo.demo_safe
#print axioms Starcal.GenDemo.each_type_usable
