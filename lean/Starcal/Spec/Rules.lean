/-! # Published calendar rules (C03), written from the property text and the published
    rules — independently of the library's code and of the model. A rule is an anchor day
    with its date, a leap predicate and month lengths. -/
namespace Starcal.Spec

structure Rule where
  anchorJd : Int
  anchor : Int × Int × Int
  isLeap : Int → Bool
  monthLen : Int → Int → Int
  /-- the calendar numbers its years … −2, −1, 1, 2 … -/
  noYear0 : Bool := false

/-- the date after `t` according to the rule -/
def Rule.succ (r : Rule) (t : Int × Int × Int) : Int × Int × Int :=
  if t.2.2 < r.monthLen t.1 t.2.1 then (t.1, t.2.1, t.2.2 + 1)
  else if t.2.1 < 12 then (t.1, t.2.1 + 1, 1)
  else ((if r.noYear0 = true ∧ t.1 = -1 then 1 else t.1 + 1), 1, 1)

/-- a date the rule allows -/
def Rule.WF (r : Rule) (t : Int × Int × Int) : Prop :=
  (r.noYear0 = true → t.1 ≠ 0) ∧ 1 ≤ t.2.1 ∧ t.2.1 ≤ 12 ∧ 1 ≤ t.2.2 ∧ t.2.2 ≤ r.monthLen t.1 t.2.1

def gregLeap (y : Int) : Bool := decide (y % 4 = 0 ∧ (y % 100 ≠ 0 ∨ y % 400 = 0))

def gregMonthLen (leap : Int → Bool) (y m : Int) : Int :=
  if m = 2 then (if leap y then 29 else 28)
  else if m = 4 ∨ m = 6 ∨ m = 9 ∨ m = 11 then 30 else 31

/-- Gregorian: 4/100/400 rule, 1970-01-01 is day 2440588 -/
def gregorian : Rule where
  anchorJd := 2440588
  anchor := (1970, 1, 1)
  isLeap := gregLeap
  monthLen := gregMonthLen gregLeap

/-- proleptic Gregorian without a year 0: year −1 is astronomical year 0 -/
def prolepticLeap (y : Int) : Bool := gregLeap (if y < 0 then y + 1 else y)
def gregorianProleptic : Rule where
  anchorJd := 2440588
  anchor := (1970, 1, 1)
  isLeap := prolepticLeap
  monthLen := gregMonthLen prolepticLeap
  noYear0 := true

/-- Julian: every fourth year, day 0 is 1 January −4712 -/
def julLeap (y : Int) : Bool := decide (y % 4 = 0)
def julian : Rule where
  anchorJd := 0
  anchor := (-4712, 1, 1)
  isLeap := julLeap
  monthLen := gregMonthLen julLeap

/-- Ethiopian: leap when y mod 4 = 3; eleven months of 30 days and a twelfth of 35/36
    (the library folds Pagume into month 12); 1/1/1 is day 1724221 -/
def ethLeap (y : Int) : Bool := decide (y % 4 = 3)
def ethiopian : Rule where
  anchorJd := 1724221
  anchor := (1, 1, 1)
  isLeap := ethLeap
  monthLen y m := if m < 12 then 30 else if ethLeap y then 36 else 35

def jalMonthLen (leap : Int → Bool) (y m : Int) : Int :=
  if m ≤ 6 then 31 else if m ≤ 11 then 30 else if leap y then 30 else 29

/-- Jalali, 33-year rule: leap iff y mod 33 ∈ {1,5,9,13,17,22,26,30}; 1 Farvardin 1400 = 2459295 -/
def jal33Leap (y : Int) : Bool :=
  let r := y % 33
  decide (r = 1 ∨ r = 5 ∨ r = 9 ∨ r = 13 ∨ r = 17 ∨ r = 22 ∨ r = 26 ∨ r = 30)
def jalali33 : Rule where
  anchorJd := 2459295
  anchor := (1400, 1, 1)
  isLeap := jal33Leap
  monthLen := jalMonthLen jal33Leap

/-- Jalali, 2820-year (Birashk) rule -/
def jal2820Leap (y : Int) : Bool := decide ((((y - 474) % 2820 + 512) * 682) % 2816 < 682)
def jalali2820 : Rule where
  anchorJd := 2459295
  anchor := (1400, 1, 1)
  isLeap := jal2820Leap
  monthLen := jalMonthLen jal2820Leap

/-- arithmetic Hijri: leap iff (11y+14) mod 30 < 11; months alternate 30/29, the twelfth has 30 in
    a leap year; 1 Muharram 1436 = 2456957 -/
def hijLeap (y : Int) : Bool := decide ((11 * y + 14) % 30 < 11)
def hijri : Rule where
  anchorJd := 2456957
  anchor := (1436, 1, 1)
  isLeap := hijLeap
  monthLen y m := if m % 2 = 1 then 30 else if m = 12 ∧ hijLeap y = true then 30 else 29

/-- Indian national (Saka): year y starts on 22 March of Gregorian y+78, 21 March if that year is
    leap; Chaitra has 30 days (31 in a leap year), the next five months 31, the rest 30. The anchor
    is that statement for Saka 1892: 22 March 1970 = day 2440588 + 31 + 28 + 21. -/
def sakaLeap (y : Int) : Bool := gregLeap (y + 78)
def indianNational : Rule where
  anchorJd := 2440668
  anchor := (1892, 1, 1)
  isLeap := sakaLeap
  monthLen y m := if m = 1 then (if sakaLeap y then 31 else 30) else if m ≤ 6 then 31 else 30

end Starcal.Spec
