import Starcal.Indian
/-! Starcal: Indian national — other round trip via injectivity, successor step, C02. -/
namespace Starcal

def iYs (y : Int) : Int := gToJd ⟨y + 78, 1, 1⟩ + 80

def iOff (y m : Int) : Int :=
  if m = 1 then 0 else if m ≤ 6 then (if iIsLeap y then 31 else 30) + (m - 2) * 31
  else (if iIsLeap y then 31 else 30) + 155 + (m - 7) * 30

theorem iToJd_ys (y m d : Int) (h1 : 1 ≤ m) (h2 : m ≤ 12) : iToJd ⟨y, m, d⟩ = iYs y + iOff y m + d - 1 := by
  rw [iToJd_eq y m d h1 h2]; unfold iYs iOff; rfl

theorem iYs_next (y : Int) : iYs (y + 1) = iYs y + (if iIsLeap y then 366 else 365) := by
  unfold iYs iIsLeap
  have e : y + 1 + 78 = y + 78 + 1 := by omega
  rw [e, gYearLen]
  by_cases hl : gIsLeap (y + 78) = true <;> simp [hl] <;> omega

theorem iYs_mono (a : Int) (n : Nat) : iYs a ≤ iYs (a + n) := by
  induction n with
  | zero => simp
  | succ n ih =>
    have := iYs_next (a + n)
    have e : a + ((n + 1 : Nat) : Int) = a + n + 1 := by omega
    rw [e, this]; split <;> omega

theorem iOff_step (y m : Int) (h1 : 1 ≤ m) (h2 : m ≤ 11) : iOff y (m + 1) = iOff y m + iMonthLen y m := by
  unfold iOff iMonthLen
  have : m = 1 ∨ m = 2 ∨ m = 3 ∨ m = 4 ∨ m = 5 ∨ m = 6 ∨ m = 7 ∨ m = 8 ∨ m = 9 ∨ m = 10 ∨ m = 11 := by omega
  rcases this with h|h|h|h|h|h|h|h|h|h|h <;> subst h <;> by_cases hl : iIsLeap y = true <;> simp [hl]

theorem iYd_bounds (y m d : Int) (h : iWF ⟨y, m, d⟩) :
    0 ≤ iOff y m + d - 1 ∧ iOff y m + d - 1 < (if iIsLeap y then 366 else 365) := by
  obtain ⟨h1, h2, h3, h4⟩ := h
  simp only at h1 h2 h3 h4
  unfold iMonthLen at h4
  unfold iOff
  rcases gmonth_cases h1 h2 with e|e|e|e|e|e|e|e|e|e|e|e <;> subst e <;>
    by_cases hl : iIsLeap y = true <;> simp [hl] at h4 ⊢ <;> omega

theorem iToJd_inj (a b : Date) (ha : iWF a) (hb : iWF b) (h : iToJd a = iToJd b) : a = b := by
  rcases a with ⟨y1, m1, d1⟩
  rcases b with ⟨y2, m2, d2⟩
  have ba := iYd_bounds y1 m1 d1 ha
  have bb := iYd_bounds y2 m2 d2 hb
  rw [iToJd_ys y1 m1 d1 ha.1 ha.2.1, iToJd_ys y2 m2 d2 hb.1 hb.2.1] at h
  have n1 := iYs_next y1
  have n2 := iYs_next y2
  have hy : y1 = y2 := by
    rcases Int.lt_trichotomy y1 y2 with hlt | heq | hgt
    · have := iYs_mono (y1 + 1) (y2 - (y1 + 1)).toNat
      have e : y1 + 1 + ((y2 - (y1 + 1)).toNat : Int) = y2 := by omega
      rw [e] at this
      split at n1 <;> split at ba <;> simp_all <;> omega
    · exact heq
    · have := iYs_mono (y2 + 1) (y1 - (y2 + 1)).toNat
      have e : y2 + 1 + ((y1 - (y2 + 1)).toNat : Int) = y1 := by omega
      rw [e] at this
      split at n2 <;> split at bb <;> simp_all <;> omega
  subst hy
  obtain ⟨a1, a2, a3, a4⟩ := ha
  obtain ⟨b1, b2, b3, b4⟩ := hb
  simp only at a1 a2 a3 a4 b1 b2 b3 b4
  have hoff : iOff y1 m1 + d1 = iOff y1 m2 + d2 := by omega
  have hm : m1 = m2 := by
    unfold iOff iMonthLen at *
    rcases gmonth_cases a1 a2 with e1|e1|e1|e1|e1|e1|e1|e1|e1|e1|e1|e1 <;> subst e1 <;>
      rcases gmonth_cases b1 b2 with e2|e2|e2|e2|e2|e2|e2|e2|e2|e2|e2|e2 <;> subst e2 <;>
      by_cases hl : iIsLeap y1 = true <;> simp [hl] at a4 b4 hoff ⊢ <;> omega
  subst hm
  have : d1 = d2 := by omega
  subst this
  rfl

theorem iJdTo_iToJd (dt : Date) (hwf : iWF dt) : iJdTo (iToJd dt) = dt := by
  obtain ⟨h1, h2⟩ := iJdTo_spec (iToJd dt)
  exact iToJd_inj _ _ h1 hwf h2


def iSucc (d : Date) : Date :=
  if d.day < iMonthLen d.year d.month then ⟨d.year, d.month, d.day + 1⟩
  else if d.month < 12 then ⟨d.year, d.month + 1, 1⟩
  else ⟨d.year + 1, 1, 1⟩

theorem iMonthLen_range (y m : Int) : 30 ≤ iMonthLen y m ∧ iMonthLen y m ≤ 31 := by
  unfold iMonthLen; split <;> (try split) <;> omega

theorem iToJd_succ (dt : Date) (hwf : iWF dt) : iWF (iSucc dt) ∧ iToJd (iSucc dt) = iToJd dt + 1 := by
  rcases dt with ⟨y, m, d⟩
  obtain ⟨hm1, hm2, hd1, hd2⟩ := hwf
  simp only at hm1 hm2 hd1 hd2
  unfold iSucc
  simp only
  by_cases hlt : d < iMonthLen y m
  · simp only [hlt, if_true]
    exact ⟨⟨hm1, hm2, by simp only; omega, by simp only; omega⟩,
      by rw [iToJd_ys y m _ hm1 hm2, iToJd_ys y m _ hm1 hm2]; omega⟩
  · have hd : d = iMonthLen y m := by omega
    simp only [hlt, if_false]
    by_cases hm : m < 12
    · simp only [hm, if_true]
      have hr := iMonthLen_range y (m + 1)
      refine ⟨⟨by simp only; omega, by simp only; omega, by simp, by simp only; omega⟩, ?_⟩
      rw [iToJd_ys y (m + 1) 1 (by omega) (by omega), iToJd_ys y m d hm1 hm2,
        iOff_step y m hm1 (by omega)]; omega
    · have hm12 : m = 12 := by omega
      subst hm12
      simp only [hm, if_false]
      have hr := iMonthLen_range (y + 1) 1
      refine ⟨⟨by simp, by simp, by simp, by simp only; omega⟩, ?_⟩
      rw [iToJd_ys (y + 1) 1 1 (by omega) (by omega), iToJd_ys y 12 d (by omega) (by omega), iYs_next]
      have h1 : iOff (y + 1) 1 = 0 := by simp [iOff]
      have h30 : iMonthLen y 12 = 30 := by simp [iMonthLen]
      rw [h1]
      unfold iOff
      by_cases hl : iIsLeap y = true <;> simp [hl] <;> omega

theorem iSucc_step (jd : Int) : iJdTo (jd + 1) = iSucc (iJdTo jd) := by
  obtain ⟨hwf, hjd⟩ := iJdTo_spec jd
  obtain ⟨hwf', hs⟩ := iToJd_succ (iJdTo jd) hwf
  have := iJdTo_iToJd (iSucc (iJdTo jd)) hwf'
  rw [hs, hjd] at this
  exact this

end Starcal

#print axioms Starcal.iSucc_step
