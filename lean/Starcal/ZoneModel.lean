import Starcal.Zone
import Starcal.Greg2
/-! Executable model of utils/funcs.go over a concrete time zone (C10, C11): a zone is the list of
    period boundaries Go's `time` package reports (exported by the harness from the host tz database),
    `time.Unix(e).In(loc)` is `e + off e` read as a civil time, `time.Date(...)` is the two-lookup
    resolution of `Zone.lean`. -/
namespace Starcal.ZoneModel
open Starcal.Zone

def J1970 : Int := 2440588
def alpha : Int := -(2 ^ 62)
def omega' : Int := 2 ^ 62

/-- a concrete zone: offset before the first boundary, then (instant, offset from that instant on) -/
structure TZ where
  off0 : Int
  trans : List (Int × Int)

/-- (offset, start, stop) of the period that contains instant `e` -/
def TZ.lookup (z : TZ) (e : Int) : Int × Int × Int :=
  let rec go : List (Int × Int) → Int × Int → Int × Int × Int
    | [], cur => (cur.2, cur.1, omega')
    | (t, o) :: rest, cur => if e < t then (cur.2, cur.1, t) else go rest (t, o)
  go z.trans (alpha, z.off0)

def TZ.toZone (z : TZ) : Zone where
  off e := (z.lookup e).1
  start e := (z.lookup e).2.1
  stop e := (z.lookup e).2.2

def off (z : TZ) (e : Int) : Int := (z.lookup e).1

/-- utils.GetJdByEpoch: floor(J1970 + (epoch + offset)/86400) -/
def getJdByEpoch (z : TZ) (e : Int) : Int := J1970 + (e + off z e) / 86400

/-- seconds since local midnight -/
def secondsOfDay (z : TZ) (e : Int) : Int := (e + off z e) % 86400

/-- the local civil date of an instant (year, month, day) -/
def localDate (z : TZ) (e : Int) : Date := gJdTo (J1970 + (e + off z e) / 86400)

/-- utils.GetJhmsByEpoch: day number from the calendar fields, and the wall clock -/
def getJhmsByEpoch (z : TZ) (e : Int) : Int × Int × Int × Int :=
  let s := secondsOfDay z e
  (gToJd (localDate z e), s / 3600, s / 60 % 60, s % 60)

/-- the civil reading y-m-d h:m:s as seconds "as if UTC" (what time.Date computes first) -/
def reading (jd h m s : Int) : Int :=
  (gToJd (gJdTo jd) - J1970) * 86400 + h * 3600 + m * 60 + s

/-- utils.GetEpochByJhms: time.Date(gdate, h, m, s, loc).Unix() -/
def getEpochByJhms (z : TZ) (jd h m s : Int) : Int := resolve z.toZone (reading jd h m s)

/-- utils.GetEpochByJd: local midnight of the day -/
def getEpochByJd (z : TZ) (jd : Int) : Int := getEpochByJhms z jd 0 0 0

/-- interval.IntervalByJd -/
def intervalByJd (z : TZ) (jd : Int) : Int × Int := (getEpochByJd z jd, getEpochByJd z (jd + 1))

/-- utils.GetJdRangeFromEpochRange -/
def getJdRange (z : TZ) (s e : Int) : Int × Int := (getJdByEpoch z s, getJdByEpoch z (e - 1) + 1)

/-- utils.GetJdAndSecondsFromEpoch -/
def getJdAndSeconds (z : TZ) (e : Int) : Int × Int :=
  let j := getJhmsByEpoch z e
  (j.1, j.2.1 * 3600 + j.2.2.1 * 60 + j.2.2.2)

/-! ### decidable regularity of a local midnight on a concrete zone (C11's hypothesis) -/

/-- the periods of the zone as (start, stop, offset) -/
def TZ.periods (z : TZ) : List (Int × Int × Int) :=
  let rec go : List (Int × Int) → Int × Int → List (Int × Int × Int)
    | [], cur => [(cur.1, omega', cur.2)]
    | (t, o) :: rest, cur => (cur.1, t, cur.2) :: go rest (t, o)
  go z.trans (alpha, z.off0)

/-- the instants of period (a, b, o) whose local reading is ≥ L form [max a (L-o), b) -/
def contrib (L : Int) (p : Int × Int × Int) : Int × Int := (max p.1 (L - p.2.2), p.2.1)

/-- local time crosses the reading L exactly once, and the reading exists: there is an instant e0
    that shows L, everything before it reads earlier, everything after it reads later than L -/
def crossesOnce (z : TZ) (L : Int) : Option Int :=
  -- skip periods that contribute nothing, the first contributing period must contain e0 = L - o
  -- unclipped, every later period must contribute entirely
  let rec go : List (Int × Int × Int) → Option Int
    | [] => none
    | p :: rest =>
      let c := contrib L p
      if c.1 ≥ c.2 then go rest
      else if c.1 = L - p.2.2 ∧ rest.all (fun q => decide (L - q.2.2 < q.1)) then some c.1
      else none
  go z.periods

def midnightReading (jd : Int) : Int := (jd - J1970) * 86400

/-- both ends of the day are regular -/
def dayRegular (z : TZ) (jd : Int) : Bool :=
  (crossesOnce z (midnightReading jd)).isSome && (crossesOnce z (midnightReading (jd + 1))).isSome

end Starcal.ZoneModel
