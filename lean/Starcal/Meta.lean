import Starcal.Indian
import Starcal.Julian
import Starcal.Hijri
/-! Starcal: C20 — advertised average year length vs. true mean, month-length bounds. -/
namespace Starcal

/-- Gregorian: AvgYearLen = 365.2425 = 3652425/10000; over any span of ≥ 300 years the true mean is
    within 0.01 day (the property asks for spans ≥ 18 000 years) -/
theorem greg_avg (a b : Int) (h : b - a ≥ 300) :
    10000 * (gToJd ⟨b, 1, 1⟩ - gToJd ⟨a, 1, 1⟩) - 3652425 * (b - a) ≤ 100 * (b - a) ∧
    -(100 * (b - a)) ≤ 10000 * (gToJd ⟨b, 1, 1⟩ - gToJd ⟨a, 1, 1⟩) - 3652425 * (b - a) := by
  simp only [gToJd]
  simp
  constructor <;> omega

/-- Gregorian month lengths lie in [28, 31] for every year: the advertised minimum of 29 is wrong -/
theorem greg_bounds (y m : Int) (h1 : 1 ≤ m) (h2 : m ≤ 12) : 28 ≤ gMonthLen y m ∧ gMonthLen y m ≤ 31 :=
  gMonthLen_range y m h1 h2
example : gMonthLen 2023 2 = 28 := by decide        -- witness against MinMonthLen = 29

/-- Julian: AvgYearLen = 365.25 -/
theorem julian_avg (a b : Int) (h : b - a ≥ 300) :
    100 * (Julian.toJd ⟨b, 1, 1⟩ - Julian.toJd ⟨a, 1, 1⟩) - 36525 * (b - a) ≤ (b - a) ∧
    -(b - a) ≤ 100 * (Julian.toJd ⟨b, 1, 1⟩ - Julian.toJd ⟨a, 1, 1⟩) - 36525 * (b - a) := by
  have e : ∀ y : Int, Julian.toJd ⟨y, 1, 1⟩ =
      Julian.Epoch + 1461 * (y / 4) + 365 * (y % 4) + (if y % 4 = 0 then 0 else 1) := by
    intro y
    unfold Julian.toJd Julian.getYearDays Julian.monthLenSum
    by_cases h0 : y % 4 = 0 <;> simp [h0] <;> omega
  rw [e a, e b]
  constructor <;> split <;> split <;> omega

/-- arithmetic Hijri: AvgYearLen = 354.3666 -/
theorem hijri_avg (a b : Int) (h : b - a ≥ 300) :
    10000 * (Hijri.yearStart b - Hijri.yearStart a) - 3543666 * (b - a) ≤ 100 * (b - a) ∧
    -(100 * (b - a)) ≤ 10000 * (Hijri.yearStart b - Hijri.yearStart a) - 3543666 * (b - a) := by
  unfold Hijri.yearStart
  constructor <;> omega

end Starcal

#print axioms Starcal.greg_avg
#print axioms Starcal.julian_avg
#print axioms Starcal.hijri_avg
