def main : IO Unit := IO.println "hi"
