import Starcal.Drv.Cal
import Starcal.Drv.Misc
import Starcal.Drv.Ival
import Starcal.Drv.Tod
import Starcal.Drv.ByNameDrv
import Starcal.Drv.RulesDrv
import Starcal.Drv.SetDrv
import Starcal.Drv.LockDrv
import Starcal.Drv.ZoneDrv
/-! Line-protocol driver: runs the executable definitions of the model (the very
    definitions the theorems are about) on requests read from stdin, one response
    line per request. See DESIGN.md section 10b. -/
open Starcal.Drv

def dispatch (toks : List String) : String :=
  match toks with
  | "cal" :: rest => calRequest rest
  | "misc" :: rest => miscRequest rest
  | "ival" :: rest => ivalRequest rest
  | "tod" :: rest => todRequest rest
  | "byname" :: rest => byNameRequest rest
  | "rules" :: rest => rulesRequest rest
  | "text" :: rest => textRequest rest
  | "set" :: rest => setRequest rest
  | "locks" :: rest => locksRequest rest
  | _ => "bad-request"

partial def loop (inp : IO.FS.Stream) (out : IO.FS.Stream) (zone : IO.Ref Starcal.ZoneModel.TZ) : IO Unit := do
  let line ← inp.getLine
  if line.isEmpty then return ()
  let l := String.ofList (line.toList.reverse.dropWhile (fun c => c == '\n' || c == '\r')).reverse
  let toks := l.splitOn " "
  -- leading tokens "@tz=<zone>", "@procs=<n>" describe the process the real code is to run in (local
  -- time zone, GOMAXPROCS); the model has no process environment: same answer whatever they say
  let toks := toks.dropWhile (fun t => t.startsWith "@")
  let resp ← match toks with
    -- calls the properties say nothing about (ill-formed arguments, other exported functions, a second
    -- instance of a type, a zone object at a reused address): the real code makes them and answers "ok";
    -- a function of the model has no state they could change
    | _ :: "abuse" :: _ => pure "ok"
    | _ :: "other-table" :: _ => pure "ok"
    | _ :: "reuse" :: _ => pure "ok"
    | _ :: "toggle" :: _ => pure "ok"
    | ["zone", "set", _name, o0, tr] =>
      match o0.toInt?, parseTrans tr with
      | some o, some t => do zone.set ⟨o, t⟩; pure "ok"
      | _, _ => pure "bad-request"
    | "zone" :: rest => do pure (zoneRequest (← zone.get) rest)
    | _ => pure (dispatch toks)
  out.putStrLn resp
  loop inp out zone

def main : IO Unit := do
  let inp ← IO.getStdin
  let out ← IO.getStdout
  let zone ← IO.mkRef (⟨0, []⟩ : Starcal.ZoneModel.TZ)
  loop inp out zone
  out.flush
