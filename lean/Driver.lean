import Starcal.Drv.Cal
import Starcal.Drv.Misc
import Starcal.Drv.Ival
import Starcal.Drv.Tod
import Starcal.Drv.ByNameDrv
import Starcal.Drv.RulesDrv
import Starcal.Drv.SetDrv
import Starcal.Drv.LockDrv
/-! Line-protocol driver: runs the executable definitions of the model (the very
    definitions the theorems are about) on requests read from stdin, one response
    line per request. See DESIGN.md section 10b. -/
open Starcal.Drv

def dispatch (toks : List String) : String :=
  match toks with
  | "cal" :: rest => calRequest rest
  | "misc" :: rest => miscRequest rest
  | "ival" :: rest => ivalRequest rest
  | "tod" :: rest => todRequest rest
  | "byname" :: rest => byNameRequest rest
  | "rules" :: rest => rulesRequest rest
  | "text" :: rest => textRequest rest
  | "set" :: rest => setRequest rest
  | "locks" :: rest => locksRequest rest
  | _ => "bad-request"

partial def loop (inp : IO.FS.Stream) (out : IO.FS.Stream) : IO Unit := do
  let line ← inp.getLine
  if line.isEmpty then return ()
  let l := String.ofList (line.toList.reverse.dropWhile (fun c => c == '\n' || c == '\r')).reverse
  let resp := dispatch (l.splitOn " ")
  out.putStrLn resp
  loop inp out

def main : IO Unit := do
  let inp ← IO.getStdin
  let out ← IO.getStdout
  loop inp out
  out.flush
